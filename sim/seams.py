"""Seams owned by the simulator.  Every seam is a module-level name that menelaus looks up at call
time (or a user-supplied object); it is rebound for the duration of a run and restored afterwards.
No source change in /repo is needed."""
import threading
from contextlib import contextmanager

import numpy as np


PAUSED = [False]      # set while a bystander (sim/bystander.py) moves: its draws / splits are not part of the run under test


class _RandomRecorder:
    """Delegates to numpy.random (the real, global state) and logs every call with its result."""

    def __init__(self, log):
        self._log = log

    def __getattr__(self, name):
        f = getattr(np.random, name)
        if not callable(f):
            return f

        def wrapped(*a, **k):
            out = f(*a, **k)
            if not PAUSED[0]:
                self._log.append((name, a, k, threading.get_ident(), out))
            return out

        return wrapped


class NpProxy:
    """Stands in for the module-global `np` of a menelaus module: everything is numpy, except that
    `.random` records."""

    def __init__(self, log):
        self.random = _RandomRecorder(log)

    def __getattr__(self, name):
        return getattr(np, name)


@contextmanager
def record_np_random(module, log):
    """Rebind `module.np` to a recording proxy.  Yields False if the module has no such name (the
    recorder then sees nothing and oracles fall back to their declared statistical band)."""
    had = hasattr(module, "np")
    old = getattr(module, "np", None)
    if had:
        module.np = NpProxy(log)
    try:
        yield had
    finally:
        if had:
            module.np = old


@contextmanager
def rebind(module, **names):
    """Temporarily rebind module-level names (joblib.Parallel / delayed, KFold, norm ...)."""
    old = {}
    missing = []
    for k, v in names.items():
        if hasattr(module, k):
            old[k] = getattr(module, k)
            setattr(module, k, v)
        else:
            missing.append(k)
    try:
        yield missing
    finally:
        for k, v in old.items():
            setattr(module, k, v)
