"""Non-incremental reference models of Page-Hinkley and CUSUM: everything is recomputed from the raw
observations of the current epoch (plus, for CUSUM, the documented carry-over constants)."""
import numpy as np

INF = float("inf")


def ph_rows(xs, delta, threshold, burn_in, direction):
    """All Page-Hinkley statistics for the epoch's observations xs (list of floats).
    Returns list of dict rows (same columns as PageHinkley.to_dataframe) + 'alarm' and 'margin'."""
    xs = np.asarray(xs, dtype=float)
    n = len(xs)
    means = np.cumsum(xs) / np.arange(1, n + 1)
    incr = xs - means - delta
    sums = np.cumsum(incr)
    rows = []
    mn = mx = 0.0
    for i in range(n):
        s = float(sums[i])
        mn = min(mn, s)
        mx = max(mx, s)
        theta = threshold * float(means[i])
        diff = s - mn if direction == "positive" else mx - s
        check = diff > theta
        rows.append({
            "change_scores": float(xs[i]), "page_hinkley_values": s, "page_hinkley_differences": diff,
            "theta_threshold": theta, "drift_detected": bool(check), "maximum_sum_values": mx,
            "minimum_sum_values": mn, "mean_values": float(means[i]),
            "alarm": bool(check and (i + 1) > burn_in), "margin": abs(diff - theta),
        })
    return rows


def cusum_step(epoch, target, sd, known_from, burn_in, delta, threshold, direction):
    """CUSUM decision after the last observation of `epoch`, recomputed from the first sample of
    the epoch at which the constants exist (1-based index known_from).  Returns (alarm, margin, sh, sl)."""
    sh = sl = 0.0
    for i, x in enumerate(epoch, 1):
        if known_from is not None and i >= known_from:
            z = (x - target) / sd
            sh = max(0.0, sh + z - delta)
            sl = max(0.0, sl - delta - z)
    n = len(epoch)
    if n <= burn_in or known_from is None:
        return False, INF, sh, sl
    if direction is None:
        return (sh > threshold or sl > threshold), min(abs(sh - threshold), abs(sl - threshold)), sh, sl
    if direction == "positive":
        return sh > threshold, abs(sh - threshold), sh, sl
    return sl > threshold, abs(sl - threshold), sh, sl
