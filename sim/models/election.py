"""Executable voting model of the four elections (C13)."""


def simple_majority(votes):
    return "drift" if sum(v == "drift" for v in votes) > len(votes) // 2 else None


def minimum_approval(votes, approvals):
    return "drift" if sum(v == "drift" for v in votes) >= approvals else None


def ordered_approval(votes, approvals, confirmations):
    return "drift" if sum(v == "drift" for v in votes) >= approvals + confirmations else None


def confirmed(counters, votes, sensitivity, wait_time):
    """One call of ConfirmedElection.  counters[i] = calls member i has been waiting (0 = not waiting).
    A member is a voter in the call in which it newly reports drift and in each of its next wait_time
    calls in which it does not report warning; a warning call counts as warning and does not use up
    waiting time.  Returns (verdict, new counters)."""
    c = list(counters)
    voters = warnings = 0
    for i, v in enumerate(votes):
        if v == "warning":
            warnings += 1                    # waiting time is not consumed
        elif c[i] > 0:
            voters += 1                      # still inside its waiting period (whatever it reports now)
            c[i] += 1
        elif v == "drift":
            voters += 1                      # newly reports drift
            c[i] = 1
    if voters >= sensitivity:
        verdict = "drift"
    elif voters + warnings >= sensitivity:
        verdict = "warning"
    else:
        verdict = None
    c = [0 if x > wait_time else x for x in c]   # 1 + wait_time voting calls, then the period is over
    return verdict, c


def confirmed_reachable(n, sensitivity, wait_time):
    """All (counters, votes) pairs reachable from the initial state (BFS over the model)."""
    import itertools

    votes_all = list(itertools.product([None, "warning", "drift"], repeat=n))
    seen = {tuple([0] * n)}
    frontier = [tuple([0] * n)]
    pairs = set()
    while frontier:
        nxt = []
        for c in frontier:
            for v in votes_all:
                pairs.add((c, v))
                _, c2 = confirmed(c, v, sensitivity, wait_time)
                c2 = tuple(c2)
                if c2 not in seen:
                    seen.add(c2)
                    nxt.append(c2)
        frontier = nxt
    return pairs
