"""Non-incremental, epoch-relative reference model of HDDDM / CDBD (C07).  Keeps the raw batches; every
statistic is recomputed from them.  The bootstrapped first epsilon is an *input* (read from the
detector's public `epsilon` list) and validated separately."""
import math

import numpy as np
import scipy.stats
from scipy.spatial.distance import jensenshannon


def hellinger(r, t):
    R, T = float(np.sum(r)), float(np.sum(t))
    return math.sqrt(sum((math.sqrt(tb / T) - math.sqrt(rb / R)) ** 2 for rb, tb in zip(r, t)))


def total_variation(r, t):
    """the user-supplied divergence used by the checks (any function of two histograms is allowed)"""
    r = np.asarray(r, dtype=float)
    t = np.asarray(t, dtype=float)
    return 0.5 * float(np.sum(np.abs(r / r.sum() - t / t.sum())))


def smoothed_kl(r, t):
    """an ASYMMETRIC user-supplied divergence: KL(reference || test) of add-one smoothed histograms"""
    r = np.asarray(r, dtype=float) + 1.0
    t = np.asarray(t, dtype=float) + 1.0
    r, t = r / r.sum(), t / t.sum()
    return float(np.sum(r * np.log(r / t)))


def divergence(kind):
    if kind == "AKL":
        return smoothed_kl
    if kind == "H":
        return hellinger
    if kind == "KL":
        return lambda r, t: float(jensenshannon(r, t))
    return total_variation


def histograms(data, bins, los, his):
    return [np.histogram(data[:, f], bins=bins, range=(los[f], his[f]))[0] for f in range(data.shape[1])]


def distances(ref, X, div):
    """(mean distance, per-feature distances, bin count, lows, highs)."""
    bins = int(math.floor(math.sqrt(len(ref))))
    los = [min(ref[:, f].min(), X[:, f].min()) for f in range(ref.shape[1])]
    his = [max(ref[:, f].max(), X[:, f].max()) for f in range(ref.shape[1])]
    hr, ht = histograms(ref, bins, los, his), histograms(X, bins, los, his)
    ds = [div(hr[f], ht[f]) for f in range(ref.shape[1])]
    return sum(ds) / len(ds), ds, bins, los, his


class Spec:
    def __init__(self, div_kind, detect_batch, statistic, significance):
        self.div = divergence(div_kind)
        self.db, self.stat, self.sig = detect_batch, statistic, significance
        self.ref = None

    def start_epoch(self, ref):
        """ref: the new reference (initial reference, explicit set_reference, or the drifted batch)."""
        ref = np.asarray(ref, dtype=float)
        self.j = 0            # batches processed in this epoch (the proxy batch of detect_batch=1 included)
        self.eps = []
        self.prev = None
        self.prev_f = None
        if self.db == 1:
            h = int(len(ref) / 2)
            self.ref = ref[:h]
            self.step(ref[h:], None)
        else:
            self.ref = ref

    def step(self, X, eps0):
        """Returns dict(distance, f_dist, epsilon, beta, drift, f_eps)."""
        X = np.asarray(X, dtype=float)
        self.j += 1
        d, fd, bins, los, his = distances(self.ref, X, self.div)
        out = {"distance": d, "f_dist": fd, "epsilon": None, "beta": None, "drift": False, "f_eps": None,
               "bins": bins, "los": los, "his": his, "ref_n": len(self.ref), "margin": float("inf")}
        if self.prev_f is not None:
            out["f_eps"] = [a - b for a, b in zip(fd, self.prev_f)]
        if self.j >= 2:
            e = abs(d - self.prev)
            out["epsilon"] = e
            if self.j == 2 and self.db != 3:
                prevs, scale = [eps0], 1
            else:
                prevs, scale = list(self.eps), self.j - 1
            if (self.db != 3 and self.j >= 2) or (self.db == 3 and self.j >= 3):
                eh = sum(prevs) / scale
                sd = math.sqrt(sum((x - eh) ** 2 for x in prevs) / scale)
                if self.stat == "tstat":
                    t = scipy.stats.t.ppf(1 - self.sig / 2, len(self.ref) + len(X) - 2)
                    b = eh + t * sd / math.sqrt(scale)
                else:
                    b = eh + self.sig * sd
                out["beta"] = b
                out["drift"] = e > b
                out["margin"] = abs(e - b)
            self.eps.append(e)
        if not out["drift"]:
            self.prev, self.prev_f = d, fd
            self.ref = np.vstack([self.ref, X])
        return out


def epsilon0_from_subsets(subsets, bins, los, his, div):
    """The documented bootstrap estimate, recomputed from the recorded subsets."""
    hs = [histograms(np.asarray(s, dtype=float), bins, los, his) for s in subsets]
    dists = []
    for a in range(len(hs)):
        for b in range(a + 1, len(hs)):
            dists.append(sum(div(hs[a][f], hs[b][f]) for f in range(len(hs[a]))))
    eps = 0.0
    for a in range(len(dists)):
        for b in range(a + 1, len(dists)):
            eps += abs(dists[a] - dists[b])
    return eps / len(subsets)
