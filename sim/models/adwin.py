"""Reference model of ADWIN: the raw list of inputs, a window width W, and a *size-only* exponential
histogram (rows[i] = number of buckets holding 2^i items).  No sums are carried: mean, variance and
every sub-window mean are recomputed from the raw window."""
import numpy as np


class AdwinModel:
    def __init__(self, delta, max_buckets, new_sample_thresh, window_size_thresh, subwindow_size_thresh,
                 conservative_bound):
        self.delta, self.M, self.period = delta, max_buckets, new_sample_thresh
        self.wthr, self.sthr, self.cons = window_size_thresh, subwindow_size_thresh, conservative_bound
        self.xs = []
        self.W = 0
        self.rows = [0]
        self.max_cascade = 0

    # ---- bucket layout (sizes only)
    def sizes_oldest_first(self):
        out = []
        for i in range(len(self.rows) - 1, -1, -1):
            out += [2 ** i] * self.rows[i]
        return out

    def insert(self):
        self.rows[0] += 1
        i = 0
        depth = 0
        while i < len(self.rows) and self.rows[i] == self.M + 1:
            if i + 1 == len(self.rows):
                self.rows.append(0)
            self.rows[i] -= 2
            self.rows[i + 1] += 1
            depth += 1
            if self.rows[i + 1] <= self.M:
                break
            i += 1
        self.max_cascade = max(self.max_cascade, depth)

    def drop_oldest(self):
        top = len(self.rows) - 1
        while self.rows[top] == 0:
            top -= 1
        self.rows[top] -= 1
        while len(self.rows) > 1 and self.rows[-1] == 0:
            self.rows.pop()
        self.W -= 2 ** top
        return 2 ** top

    # ---- statistics from the raw window
    def window(self):
        return np.asarray(self.xs[len(self.xs) - self.W:], dtype=float)

    def eps_cut(self, n0, n1, var, n):
        nh = 1.0 / (n0 - self.sthr + 1) + 1.0 / (n1 - self.sthr + 1)
        with np.errstate(all="ignore"):
            if not self.cons:
                d = np.log(2 * np.log(n) / self.delta)
                return float(np.sqrt(2 * nh * var * d) + (2.0 / 3.0) * nh * d)
            d = np.log(4 * np.log(n) / self.delta)
            return float(np.sqrt(0.5 * nh * d))

    def exceeds(self, tol):
        """Is there an admissible split (bucket boundary, both sides >= sthr, newer side non-empty)
        whose difference of means exceeds eps-cut?  Returns (bool, near_tie_seen)."""
        w = self.window()
        n = len(w)
        var = float(w.var())
        cs = np.cumsum(w)
        tot = float(cs[-1])
        pos = 0
        tie = False
        for b in self.sizes_oldest_first()[:-1]:
            pos += b
            n0, n1 = pos, n - pos
            if n0 >= self.sthr and n1 >= self.sthr and n1 > 0:
                diff = abs(float(cs[pos - 1]) / n0 - (tot - float(cs[pos - 1])) / n1)
                e = self.eps_cut(n0, n1, var, n)
                if np.isnan(e):
                    continue
                if abs(diff - e) <= tol * max(1.0, abs(e), abs(diff)):
                    tie = True
                if diff > e:
                    return True, tie
        return False, tie

    def update(self, x, total, tol=1e-7):
        """Returns (drift, near_tie_seen, buckets_dropped)."""
        self.xs.append(float(x))
        self.W += 1
        self.insert()
        drift = tie = False
        dropped = 0
        if total % self.period == 0 and self.W > self.wthr:
            while True:
                ex, t = self.exceeds(tol)
                tie |= t
                if not ex:
                    break
                drift = True
                self.drop_oldest()
                dropped += 1
                if self.W <= 0:
                    break
        return drift, tie, dropped
