"""Specification of Linear Four Rates (C06), evaluated on the Monte-Carlo draws the code actually made."""
import numpy as np

RATES = ["tpr", "tnr", "ppv", "npv"]


def rates(C):
    """C[pred][true]; returns (rates, denominators)."""
    tn, fn, fp, tp = C[0][0], C[0][1], C[1][0], C[1][1]
    return ({"tpr": tp / (tp + fn), "tnr": tn / (tn + fp), "ppv": tp / (fp + tp), "npv": tn / (tn + fn)},
            {"tpr": tp + fn, "tnr": tn + fp, "ppv": fp + tp, "npv": tn + fn})


def group_simulations(calls, num_mc, eta, warning_level, detect_level):
    """calls: recorded np.random entries.  Per thread, consecutive binomial calls with equal (p, size) are
    grouped into simulations of num_mc draws.  Returns (list of (p, N, bounds), problem or None)."""
    per_thread = {}
    for c in calls:
        if c[0] != "binomial":
            continue
        a, kw = c[1], dict(c[2])
        for j, key in enumerate(("n", "p", "size")):   # accept positional arguments too
            if key not in kw and len(a) > j:
                kw[key] = a[j]
        per_thread.setdefault(c[3], []).append((c[0], a, kw, c[3], c[4]))
    sims = []
    for th, cs in per_thread.items():
        i = 0
        while i < len(cs):
            kw = cs[i][2]
            p, N = kw.get("p"), kw.get("size")
            grp = cs[i:i + num_mc]
            if p is None or N is None or len(grp) != num_mc or any(g[2].get("p") != p or g[2].get("size") != N or g[2].get("n") != 1 for g in grp):
                return sims, "unexpected shape of the recorded Monte-Carlo draws"
            w = np.array([eta ** (N - j) for j in range(1, N + 1)])
            vals = [(1 - eta) * float(sum((w * np.asarray(g[4])).tolist())) for g in grp]  # sequential sum, like the documented formula
            b = {"lw": np.percentile(vals, warning_level * 100), "uw": np.percentile(vals, 100 - warning_level * 100),
                 "ld": np.percentile(vals, detect_level * 100), "ud": np.percentile(vals, 100 - detect_level * 100)}
            sims.append((float(p), int(N), b))
            i += num_mc
    return sims, None


def flags(R, b):
    return bool((R < b["lw"]) | (R > b["uw"])), bool((R < b["ld"]) | (R > b["ud"]))
