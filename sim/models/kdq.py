"""Brute-force model of the kdq-tree partitioner: walks the PUBLIC tree (partitioner.node with
.axis / .midpoint_at_axis / .left / .right / .num_samples_in_compared_subtrees) and assigns every
point to its leaf by descent."""
import numpy as np


def is_leaf(node):
    return node.axis is None


def walk(root):
    """Pre-order list of (node, depth, parent)."""
    out = []

    def rec(n, d, p):
        if n is None:
            return
        out.append((n, d, p))
        if not is_leaf(n):
            rec(n.left, d + 1, n)
            rec(n.right, d + 1, n)

    rec(root, 0, None)
    return out


def descend_path(root, x):
    """All nodes on the path of point x from the root to its leaf."""
    path = [root]
    n = root
    while not is_leaf(n):
        n = n.left if x[n.axis] <= n.midpoint_at_axis else n.right
        if n is None:
            return path, None
        path.append(n)
    return path, n


def route(root, X):
    """dict id(node) -> number of rows of X whose path passes the node."""
    counts = {}
    for x in np.asarray(X, dtype=float):
        path, leaf = descend_path(root, x)
        for n in path:
            counts[id(n)] = counts.get(id(n), 0) + 1
    return counts


def check_structure(root, data, count_ubound, min_sizes):
    """Structural rules of build().  Returns a list of problem strings (empty = fine)."""
    probs = []
    d = data.shape[1]

    def rec(node, pts, depth):
        n = len(pts)
        if node is None:
            if n:
                probs.append(f"{n} build points fall into a missing child at depth {depth}")
            return
        got = node.num_samples_in_compared_subtrees.get("build")
        if got != n:
            probs.append(f"depth {depth}: build count {got}, {n} build points reach the node")
        ax = depth % d
        if is_leaf(node):
            if n > count_ubound:
                half = np.ptp(pts[:, ax]) / 2
                if not (np.unique(pts).size <= count_ubound or half <= min_sizes[ax]):
                    probs.append(f"depth {depth}: leaf holds {n} > count_ubound={count_ubound} points although neither the "
                                 f"minimum cell size ({half} vs {min_sizes[ax]}) nor the distinct-value rule stops the split")
            return
        if n <= count_ubound:
            probs.append(f"depth {depth}: node with {n} <= count_ubound={count_ubound} points was split")
        if node.axis != ax:
            probs.append(f"depth {depth}: splits axis {node.axis}, expected {ax} (axes cycle with depth)")
        mid = pts[:, ax].min() + np.ptp(pts[:, ax]) / 2 if n else None
        if mid is None or abs(mid - node.midpoint_at_axis) > 1e-12 * max(1.0, abs(mid)):
            probs.append(f"depth {depth}: midpoint {node.midpoint_at_axis}, range midpoint of its points {mid}")
        a = node.axis if node.axis is not None and node.axis < d else ax
        lo = pts[pts[:, a] <= node.midpoint_at_axis]
        hi = pts[pts[:, a] > node.midpoint_at_axis]
        rec(node.left, lo, depth + 1)
        rec(node.right, hi, depth + 1)

    rec(root, np.asarray(data, dtype=float), 0)
    return probs


def leaves_in_order(root):
    return [n for n, _, _ in walk(root) if is_leaf(n)]


def distn(counts):
    c = np.asarray(counts, dtype=float)
    return (c + 0.5) / (c.sum() + len(c) / 2.0)


def kl(p, q):
    p = np.asarray(p, dtype=float)
    q = np.asarray(q, dtype=float)
    return float(np.sum(p * np.log(p / q)))


def kss(ref_count, test_count, ref_max, test_max):
    return kl(distn([ref_count, ref_max - ref_count]), distn([test_count, test_max - test_count]))


# ------------------------------------------------------------------------------------------------
# independent re-statement of the build rule (used by the detector model, C09)
# ------------------------------------------------------------------------------------------------
class MNode:
    __slots__ = ("axis", "mid", "left", "right", "n")

    def __init__(self, n, axis=None, mid=None, left=None, right=None):
        self.n, self.axis, self.mid, self.left, self.right = n, axis, mid, left, right


def build_tree(data, count_ubound, proportion_lbound):
    data = np.asarray(data, dtype=float)
    d = data.shape[1]
    min_sizes = [int(proportion_lbound * np.ptp(data[:, a])) for a in range(d)]
    leaves = []

    def rec(pts, depth):
        n = len(pts)
        if n == 0:
            return None
        ax = depth % d
        lo = pts[:, ax].min()
        mid = lo + np.ptp(pts[:, ax]) / 2
        if n <= count_ubound or np.unique(pts).size <= count_ubound or (mid - lo) <= min_sizes[ax]:
            leaf = MNode(n)
            leaves.append(leaf)
            return leaf
        left = rec(pts[pts[:, ax] <= mid], depth + 1)
        right = rec(pts[pts[:, ax] > mid], depth + 1)
        return MNode(n, ax, mid, left, right)

    root = rec(data, 0)
    return root, leaves


def leaf_index(root, leaves, x):
    n = root
    while n.axis is not None:
        n = n.left if x[n.axis] <= n.mid else n.right
        if n is None:
            return None
    return leaves.index(n)


def leaf_counts(root, leaves, X):
    c = np.zeros(len(leaves))
    for x in np.asarray(X, dtype=float):
        i = leaf_index(root, leaves, x)
        if i is not None:
            c[i] += 1
    return c
