"""From-scratch reference model of PCA-CD (C11): keeps raw samples, recomputes scaler / PCA / densities at
window completion and the divergence of every retained component on that component's own support.
Scores are compared, never projections (principal-axis signs are decided by rounding noise)."""
import math

import numpy as np
from scipy.spatial.distance import jensenshannon
from sklearn.decomposition import PCA
from sklearn.neighbors import KernelDensity
from sklearn.preprocessing import StandardScaler


def kde_density(s):
    s = np.asarray(s, dtype=float)
    bw = 1.06 * np.std(s, ddof=1) * len(s) ** (-1 / 5)
    k = KernelDensity(bandwidth=bw, kernel="epanechnikov").fit(s.reshape(-1, 1))
    return np.exp(k.score_samples(s.reshape(-1, 1)))


def hist(s, bins, lo, hi):
    h = np.histogram(s, bins=bins, range=(lo, hi), density=True)[0]
    return h / h.sum()


class PH:
    """Page-Hinkley (positive direction, burn_in 0) recomputed from the scores of the current epoch."""

    def __init__(self, delta, threshold):
        self.delta, self.threshold, self.xs = delta, threshold, []

    def update(self, x):
        self.xs.append(float(x))
        mean = sm = mn = 0.0
        for i, v in enumerate(self.xs, 1):
            mean = mean + (v - mean) / i
            sm = sm + v - mean - self.delta
            mn = min(mn, sm)
        diff, theta = sm - mn, self.threshold * mean
        return diff > theta, abs(diff - theta)


class Model:
    def __init__(self, window_size, ev_threshold, delta, divergence_metric, sample_period, online_scaling):
        self.w, self.ev, self.metric, self.scaling = window_size, ev_threshold, divergence_metric, online_scaling
        self.step = min(100, round(sample_period * window_size))
        self.bins = int(math.floor(math.sqrt(window_size)))
        self.delta, self.thr = delta, round(0.01 * window_size)
        self.ph = PH(delta, self.thr)
        self.ref, self.test = [], []       # raw samples
        self.building, self.total, self.state = True, 0, None
        self.scores = [0]
        self.num_pcs = None
        self.margin = float("inf")
        self.last_component_scores = None

    def _transform(self, rows):
        a = np.asarray(rows, dtype=float)
        return self.sc.transform(a) if self.scaling else a

    def update(self, x):
        x = np.asarray(x, dtype=float)
        self.total += 1
        self.margin = float("inf")
        if self.building:
            if self.state is not None:
                # the former test window (raw units) becomes the reference; the triggering sample is discarded
                self.ref, self.test, self.state = list(self.test), [], None
                self.ph = PH(self.delta, self.thr)
            elif len(self.ref) < self.w:
                self.ref.append(x)
            elif len(self.test) < self.w:
                self.test.append(x)
            if len(self.test) == self.w:
                self.building = False
                R = np.asarray(self.ref, dtype=float)
                if self.scaling:
                    self.sc = StandardScaler().fit(R)
                Rs, Ts = self._transform(self.ref), self._transform(self.test)
                self.pca = PCA(self.ev).fit(Rs)
                self.num_pcs = len(self.pca.components_)
                self.RP, self.TP = self.pca.transform(Rs), self.pca.transform(Ts)
                self.lo = [min(self.RP[:, i].min(), self.TP[:, i].min()) for i in range(self.num_pcs)]
                self.hi = [max(self.RP[:, i].max(), self.TP[:, i].max()) for i in range(self.num_pcs)]
            return
        self.test = self.test[1:] + [x]
        pr = self.pca.transform(self._transform([x]))[0]
        if self.metric == "intersection":
            pr = np.array([min(max(pr[i], self.lo[i]), self.hi[i]) for i in range(self.num_pcs)])
        self.TP = np.vstack([self.TP[1:], pr])
        if (self.total - 1) % self.step == 0 and self.total - 1 != 0:
            sc = []
            for i in range(self.num_pcs):
                if self.metric == "kl":
                    sc.append(float(jensenshannon(kde_density(self.RP[:, i]), kde_density(self.TP[:, i]))))
                else:
                    sc.append(float(1 - np.sum(np.minimum(hist(self.RP[:, i], self.bins, self.lo[i], self.hi[i]),
                                                          hist(self.TP[:, i], self.bins, self.lo[i], self.hi[i])))))
            self.last_component_scores = sc
            cs = max(sc)
            self.scores.append(cs)
            alarm, self.margin = self.ph.update(cs)
            if alarm:
                self.building, self.state = True, "drift"
