"""Executable specifications of DDM, EDDM and STEPD, written from the class docstrings.

Each spec is a pure function of the outcomes of the *current epoch* (list of 1 = correct /
0 = incorrect) and the parameters; it returns one (state, margin) per sample, where margin is the
smallest |lhs - rhs| of the threshold comparisons made for that sample (used only to recognise a
floating-point near-tie when the implementation disagrees).

Two stated judgement calls (DESIGN.md C05/O1): the deviation recurrences of DDM and EDDM store the
square root back into the running sum, and DDM scales the current deviation (the docstring writes
s_min).  C05 fixes neither estimator, so the specification follows the documented recurrence as
implemented; everything else is derived independently.
"""
import math

import numpy as np
import scipy.stats

INF = float("inf")


def ddm_spec(correct, n_threshold, warning_scale, drift_scale):
    out = []
    p = 0.0
    s = 0.0
    pmin = smin = INF
    st = None
    for n, c in enumerate(correct, 1):
        x = 0 if c else 1  # error indicator
        pprev = p
        p = p + (x - p) / n
        s = s + (x - p) * (x - pprev)
        s = float(np.sqrt(s / n))
        margin = INF
        if n >= n_threshold:
            if p + s <= pmin + smin:
                pmin, smin = p, s
            lhs = p + s
            d_rhs = pmin + drift_scale * s
            w_rhs = pmin + warning_scale * s
            margin = min(abs(lhs - d_rhs), abs(lhs - w_rhs))
            if lhs >= d_rhs:
                st = "drift"
            elif lhs >= w_rhs:
                st = "warning"
            else:
                st = None
        out.append((st, margin))
    return out


def eddm_spec(correct, n_threshold, warning_thresh, drift_thresh):
    out = []
    st = None
    n_err = 0
    cur = 0
    mean = np.float64(0.0)
    sd = np.float64(0.0)
    mx = np.float64(0.0)
    for i, c in enumerate(correct):
        margin = INF
        if not c:
            n_err += 1
            last, cur = cur, i
            d = cur - last
            pm = mean
            mean = mean + (d - mean) / n_err
            sd = sd + (d - mean) * (d - pm)
            sd = np.sqrt(sd / n_err)
            if n_err >= n_threshold:
                num = mean + 2 * sd
                if mx < num:
                    mx = num
                ts = num / mx  # 0/0 -> NaN under numpy floats: compares False, i.e. no alarm
                margin = min(abs(float(ts) - drift_thresh), abs(float(ts) - warning_thresh)) if not math.isnan(float(ts)) else INF
                if ts <= drift_thresh:
                    st = "drift"
                elif ts <= warning_thresh:
                    st = "warning"
                else:
                    st = None
        out.append((st, margin))
    return out


def stepd_spec(correct, window, alpha_warning, alpha_drift):
    out = []
    st = None
    for n in range(1, len(correct) + 1):
        margin = INF
        if n >= 2 * window:
            recent = correct[n - window:n]
            past = correct[:n - window]
            pr = sum(recent) / window
            pp = sum(past) / len(past)
            po = sum(correct[:n]) / n
            k = 1 / len(past) + 1 / window
            stat = (np.absolute(pp - pr) - 0.5 * k) / np.sqrt(po * (1 - po) * k)
            pv = 1 - scipy.stats.norm.cdf(stat, 0, 1)
            dec = pp > pr
            if dec and not math.isnan(float(pv)):
                margin = min(abs(float(pv) - alpha_drift), abs(float(pv) - alpha_warning))
            if dec and pv < alpha_drift:
                st = "drift"
            elif dec and pv < alpha_warning:
                st = "warning"
            else:
                st = None
        out.append((st, margin))
    return out


class Recs:
    """Recommendation bookkeeping stated by C05 (global, 0-based indices)."""

    def __init__(self, kind):
        self.kind = kind  # 'first' (DDM, EDDM, LFR) or 'run' (STEPD)
        self.start_epoch()

    def start_epoch(self):
        self.first = None
        self.run_start = None
        self.cur = [None, None]

    def step(self, state, idx, evaluated=True):
        """state after the sample with global index idx; `evaluated` = the detector re-evaluated
        its state on this sample (EDDM: only on errors past the threshold; STEPD: n >= 2w)."""
        if self.kind == "first":
            if evaluated and state == "warning" and self.first is None:
                self.first = idx
            if evaluated and state == "drift":
                self.cur = [self.first if self.first is not None else idx, idx]
            else:
                self.cur = [self.first, None]
        else:
            if not evaluated:
                return self.cur
            if state is None:
                self.run_start = None
                self.cur = [None, None]
            else:
                if self.run_start is None:
                    self.run_start = idx
                self.cur = [self.run_start, idx]
        return self.cur
