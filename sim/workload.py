"""Seeded workload generators.  All take a `random.Random` and return plain Python data (lists of
floats / ints), so that a generated case is JSON and replays bit-for-bit.  "Environment drift
events" (level / variance / accuracy regime changes at seeded instants) are the workload's own
fault injector: they make runs cross several detector epochs."""
import math


def _r(x, nd=4):
    return round(float(x), nd)


def _scale(rng):
    return rng.choice([1.0, 1.0, 1.0, 1.0, 1e-3, 1e3])


# ---- data regimes: the same stream in a numerically awkward but legitimate representation.  A caller names the regimes its
# oracle is sound for (decided per check after running every regime against the unchanged tree, DESIGN.md 9.10); about one
# workload in seven is then moved into one of them after it has been generated.
#   offset  : + 1e9 (timestamps, identifiers: |mean| / spread ~ 1e9)        tiny : x 1e-9 (SI units at nano scale)
#   lattice : rounded to multiples of 0.5 (counts, coarse sensors: many ties, values exactly on split points / bin edges)
def apply_regime(rng, values, regimes, p=0.15):
    """values: nested lists of floats.  Returns (values, regime or None).  Draws from rng only when regimes is non-empty."""
    if not regimes or rng.random() >= p:
        return values, None
    reg = rng.choice(list(regimes))

    def f(v):
        if isinstance(v, list):
            return [f(u) for u in v]
        if reg == "offset":
            return float(v) + 1e9
        if reg == "tiny":
            return float(v) * 1e-9
        return round(float(v) * 2) / 2.0

    return f(values), reg


def stream_values(rng, n, kind=None, drift_rate=None, nd=4, regimes=()):
    """Univariate real stream with regime changes.  Returns (values, drift_positions)."""
    kind = kind or rng.choice(["gauss", "gauss", "gauss", "bern", "ramp", "heavy"])
    drift_rate = drift_rate if drift_rate is not None else rng.choice([0.005, 0.01, 0.02, 0.04])
    mu, sd = rng.choice([0.0, 0.0, 5.0, -2.0, 100.0]), rng.choice([0.5, 1.0, 2.0])
    scale = _scale(rng)          # overall magnitude of the data (several detectors are not scale invariant)
    nd = nd + (3 if scale < 1 else 0)
    out, drifts = [], []
    slope = 0.0
    for t in range(n):
        if rng.random() < drift_rate:
            drifts.append(t)
            c = rng.random()
            if c < 0.6:
                mu += rng.choice([-1, 1]) * rng.choice([1.0, 2.0, 4.0, 8.0]) * sd
            elif c < 0.8:
                sd = rng.choice([0.3, 1.0, 3.0])
            else:
                slope = rng.choice([0.0, 0.05, -0.05, 0.2])
        mu += slope
        if kind == "bern":
            p = min(0.97, max(0.03, 0.5 + mu / 20.0))
            out.append(1.0 if rng.random() < p else 0.0)
        elif kind == "heavy":
            out.append(_r(scale * (mu + sd * rng.gauss(0, 1) * (5.0 if rng.random() < 0.03 else 1.0)), nd))
        else:
            out.append(_r(scale * rng.gauss(mu, sd), nd))
    out, _ = apply_regime(rng, out, regimes if kind != "bern" else ())
    return out, drifts


def outcomes(rng, n, burst=None):
    """(y_true, y_pred) in {0,1}^2 with piecewise-stationary accuracy and class balance.
    Returns list of [yt, yp] and the positions of regime changes."""
    acc = rng.choice([0.97, 0.9, 0.8, 0.6])
    bal = rng.choice([0.5, 0.5, 0.3, 0.8])
    rate = burst if burst is not None else rng.choice([0.01, 0.02, 0.04, 0.08])
    out, drifts = [], []
    for t in range(n):
        if rng.random() < rate:
            drifts.append(t)
            acc = rng.choice([0.99, 0.95, 0.8, 0.6, 0.4, 0.15])
            if rng.random() < 0.3:
                bal = rng.choice([0.5, 0.2, 0.8])
        yt = 1 if rng.random() < bal else 0
        ok = rng.random() < acc
        out.append([yt, yt if ok else 1 - yt])
    return out, drifts


def mv_stream(rng, n, d, drift_rate=None, nd=4, regimes=()):
    """Multivariate stream (list of rows) with level / variance / correlation regime changes."""
    drift_rate = drift_rate if drift_rate is not None else rng.choice([0.005, 0.01, 0.03])
    mu = [rng.choice([0.0, 1.0, -3.0]) for _ in range(d)]
    sd = [rng.choice([0.3, 1.0, 3.0]) for _ in range(d)]
    rho = rng.choice([0.0, 0.0, 0.6, -0.6])
    scale = _scale(rng)
    nd = nd + (3 if scale < 1 else 0)
    rows, drifts = [], []
    for t in range(n):
        if rng.random() < drift_rate:
            drifts.append(t)
            c = rng.random()
            if c < 0.6:
                k = rng.randrange(d)
                mu[k] += rng.choice([-1, 1]) * rng.choice([2.0, 4.0, 8.0]) * sd[k]
                if rng.random() < 0.5:
                    k2 = rng.randrange(d)
                    mu[k2] += rng.choice([-1, 1]) * 4.0 * sd[k2]
            elif c < 0.8:
                k = rng.randrange(d)
                sd[k] = rng.choice([0.2, 1.0, 4.0])
            else:
                rho = rng.choice([0.0, 0.8, -0.8])
        z = [rng.gauss(0, 1) for _ in range(d)]
        for j in range(1, d):
            z[j] = rho * z[0] + math.sqrt(max(0.0, 1 - rho * rho)) * z[j]
        rows.append([_r(scale * (mu[j] + sd[j] * z[j]), nd) for j in range(d)])
    rows, _ = apply_regime(rng, rows, regimes)
    return rows, drifts


def batches(rng, nb, d, size_lo=8, size_hi=60, equal=None, drift_rate=None, nd=3, dup=0.0, integer=False, regimes=()):
    """List of batches (each a list of rows) with regime changes between batches."""
    drift_rate = drift_rate if drift_rate is not None else rng.choice([0.15, 0.3, 0.5])
    equal = rng.random() < 0.5 if equal is None else equal
    n0 = rng.randint(size_lo, size_hi)
    mu = [rng.choice([0.0, 1.0, -3.0]) for _ in range(d)]
    sd = [rng.choice([0.5, 1.0, 2.0]) for _ in range(d)]
    scale = 1.0 if integer else _scale(rng)
    nd = nd + (3 if scale < 1 else 0)
    out, drifts = [], []
    for b in range(nb):
        if b > 0 and rng.random() < drift_rate:
            drifts.append(b)
            k = rng.randrange(d)
            c = rng.random()
            if c < 0.7:
                mu[k] += rng.choice([-1, 1]) * rng.choice([0.7, 1.5, 3.0]) * sd[k]
            else:
                sd[k] = rng.choice([0.3, 1.0, 3.0])
        n = n0 if equal else rng.randint(size_lo, size_hi)
        rows = []
        for _ in range(n):
            if rows and rng.random() < dup:
                rows.append(list(rng.choice(rows)))
            else:
                row = [scale * rng.gauss(mu[j], sd[j]) for j in range(d)]
                rows.append([float(round(v)) if integer else _r(v, nd) for v in row])
        out.append(rows)
    out, _ = apply_regime(rng, out, regimes if not integer else ())
    return out, drifts
