"""Core of the deterministic simulator used by every check.

One integer (VERIF_SEED) decides everything: run_seed = blake2b(VERIF_SEED, property, scenario, i);
a run is `case = gen(Random(run_seed))` followed by `run(case, ctx)`; a case is plain JSON
(configuration + event list, every event carrying the numpy seed that is installed before the
call it makes), so a replay is "execute this file".  Nothing in here reads a clock or draws a
random number while a run executes; wall-clock is read only by the batch runner for its budget.
"""
import faulthandler
import hashlib
import json
import math
import multiprocessing
import os
import random
import subprocess
import sys
import time
import traceback
from collections import Counter
from concurrent.futures import ProcessPoolExecutor

VERIF_DIR = os.path.dirname(os.path.dirname(os.path.abspath(__file__)))
REPLAY_DIR = os.environ.get("VERIF_REPLAY_DIR") or os.path.join(VERIF_DIR, "replays")
EVIDENCE_DIR = os.environ.get("VERIF_EVIDENCE_DIR") or os.path.join(VERIF_DIR, "evidence")
KNOWN_FILE = os.path.join(VERIF_DIR, "known_findings.json")


# --------------------------------------------------------------------------------------------
# seeds, canonical forms
# --------------------------------------------------------------------------------------------
def derive(*parts):
    """Stable 63-bit integer from arbitrary (repr-able) parts; independent of PYTHONHASHSEED."""
    h = hashlib.blake2b(repr(parts).encode(), digest_size=8).digest()
    return int.from_bytes(h, "big") >> 1


def np_seed(rng):
    return rng.randrange(2**32 - 1)


def canon(x):
    """Canonical, process-independent text form of an observation (used for digests)."""
    import numpy as np

    if x is None or isinstance(x, (bool, str)):
        return repr(x)
    if isinstance(x, (int,)):
        return repr(float(x)) if abs(x) < 2**53 else repr(int(x))   # 3 and 3.0 are the same observation
    if isinstance(x, float):
        return repr(x)
    if isinstance(x, np.generic):
        return canon(x.item())
    if isinstance(x, np.ndarray):
        return canon(x.tolist())
    if isinstance(x, (list, tuple)):
        return "[" + ",".join(canon(v) for v in x) + "]"
    if isinstance(x, dict):
        return "{" + ",".join(canon(k) + ":" + canon(v) for k, v in x.items()) + "}"
    return repr(x)


def close(a, b, rel=1e-9, scale=1.0):
    """|a-b| <= rel * max(1, |a|, |b|, scale); NaN equals NaN; inf equals same inf."""
    if a is None or b is None:
        return a is None and b is None
    a = float(a)
    b = float(b)
    if math.isnan(a) or math.isnan(b):
        return math.isnan(a) and math.isnan(b)
    if math.isinf(a) or math.isinf(b):
        return a == b
    return abs(a - b) <= rel * max(1.0, abs(a), abs(b), scale)


def approx_same(x, y, rel=1e-9):
    """Structural equality of two observations with floats compared by `close` (for twins whose inputs differ in layout /
    container only: pandas and numpy may sum in another order, so the last digits of a float are not an observation)."""
    import numpy as np

    if isinstance(x, (np.generic, np.ndarray)):
        x = x.tolist()
    if isinstance(y, (np.generic, np.ndarray)):
        y = y.tolist()
    if isinstance(x, dict) and isinstance(y, dict):
        return list(x) == list(y) and all(approx_same(x[k], y[k], rel) for k in x)
    if isinstance(x, (list, tuple)) and isinstance(y, (list, tuple)):
        return len(x) == len(y) and all(approx_same(a, b, rel) for a, b in zip(x, y))
    num = lambda v: isinstance(v, (int, float)) and not isinstance(v, bool)  # noqa: E731
    if num(x) and num(y):
        return close(x, y, rel)
    return canon(x) == canon(y)


# --------------------------------------------------------------------------------------------
# control-flow exceptions of a run
# --------------------------------------------------------------------------------------------
class Violation(Exception):
    def __init__(self, kind, sig, step, detail):
        super().__init__(f"{kind} @ {step}: {detail}")
        self.kind, self.sig, self.step, self.detail = kind, sig, step, detail

    def as_dict(self):
        return {"kind": self.kind, "sig": self.sig, "step": self.step, "detail": self.detail}


class NearTie(Exception):
    """A decision whose two sides are within tolerance: not judged, run is cut here."""


class EndRun(Exception):
    """Stop the run early without a verdict on the rest (prefix stays checked)."""


class HarnessError(Exception):
    pass


def documented_refusal(e):
    """Errors the library documents for inputs outside its domain; a generator that happens to produce such an input ends
    the run (prefix stays checked) instead of reporting a violation.  Today: CUSUM's zero-variance estimation window, and numpy's
    refusal to cut a feature whose range is a few ulps wide into histogram bins (a constant feature, as far as floats can tell)."""
    return isinstance(e, ValueError) and ("Standard deviation is 0" in str(e) or "Too many bins for data range" in str(e))


# --------------------------------------------------------------------------------------------
# per-run context
# --------------------------------------------------------------------------------------------
class Ctx:
    def __init__(self, prop, known_sigs=()):
        self.prop = prop
        self.known_sigs = set(known_sigs)
        self.known_hits = []
        self.probes = Counter()
        self.faults = Counter()
        self.states = set()
        self._sim_time = 0
        self.fleet = None        # bystanders (sim/bystander.py), stepped once per unit of simulated time
        self.fork_plan = None    # {"at": k, "how": "deepcopy" | "pickle"}: snapshot / restore of the detector before its k-th step
        self._fork_calls = 0
        self._old_processes = []
        self.near_ties = 0
        self.nontrivial = False
        self.notes = Counter()
        self._h = hashlib.sha1()
        self.step = -1

    # -- simulated time = accepted calls into menelaus; every tick lets one bystander move (if the case has a fleet)
    @property
    def sim_time(self):
        return self._sim_time

    @sim_time.setter
    def sim_time(self, v):
        if self.fleet is not None:
            from sim import seams

            if not seams.PAUSED[0]:
                seams.PAUSED[0] = True
                try:
                    for _ in range(max(0, min(3, v - self._sim_time))):
                        self.fleet.tick()
                finally:
                    seams.PAUSED[0] = False
        self._sim_time = v

    # -- crash / restart with durable state: the detector is snapshotted (copy.deepcopy or a pickle round trip) at an arbitrary
    #    instant and the run continues on the restored copy; the process that was snapshotted goes on for a moment (reset)
    #    and must not be able to reach the copy.  A detector that cannot be snapshotted that way is left alone (noted).
    def maybe_fork(self, det):
        plan = self.fork_plan
        if not plan or plan.get("done"):
            return det
        if plan.get("when") == "drift":      # snapshot taken exactly while the detector reports drift (restart still pending)
            if getattr(det, "drift_state", None) != "drift":
                return det
        self._fork_calls += 1
        if self._fork_calls != plan["at"]:
            return det
        plan["done"] = True
        import copy
        import pickle

        try:
            new = copy.deepcopy(det) if plan["how"] == "deepcopy" else pickle.loads(pickle.dumps(det))
        except Exception as e:  # noqa: BLE001
            self.note(f"snapshot_not_possible:{plan['how']}:{type(e).__name__}")
            return det
        self.fault("snapshot_restore_" + plan["how"])
        try:
            if hasattr(det, "reset"):
                det.reset()
        except Exception:  # noqa: BLE001
            pass
        self._old_processes.append(det)
        return new

    # -- recording (never draws randomness, never reads a clock)
    def obs(self, *vals):
        self._h.update(canon(vals).encode())
        self._h.update(b"|")

    def digest(self):
        return self._h.hexdigest()[:16]

    def probe(self, name, n=1):
        self.probes[name] += n

    def fault(self, name, n=1):
        self.faults[name] += n

    def state(self, *parts):
        if len(self.states) < 400:
            self.states.add("/".join(str(p) for p in parts))

    def note(self, name, n=1):
        self.notes[name] += n

    relaxed = False

    def same_obs(self, a, b):
        """observations of a twin pair: identical text, or - in a relaxed run - equal up to the float tolerance"""
        return canon(a) == canon(b) or (self.relaxed and approx_same(a, b, 1e-9))

    # -- verdicts
    def violation(self, kind, sig, detail, step=None):
        """Report a violation.  Returns (instead of raising) only for a listed known finding."""
        step = self.step if step is None else step
        if sig in self.known_sigs:
            if sig not in self.known_hits:
                self.known_hits.append(sig)
            return
        raise Violation(kind, sig, step, detail)

    def near_tie(self):
        self.near_ties += 1
        raise NearTie()

    # -- calls into the system under test
    judge_refusals = False   # set by a check whose model knows when the documented refusal is due

    def call(self, sig_prefix, fn, *a, **k):
        """Call into menelaus; any exception is a violation (the caller only uses this for calls
        that the property says must succeed)."""
        try:
            return fn(*a, **k)
        except (Violation, NearTie, EndRun, HarnessError):
            raise
        except Exception as e:  # noqa: BLE001 - by design
            if documented_refusal(e) and not self.judge_refusals:
                self.note("documented_refusal:" + ("cusum_zero_variance" if "Standard" in str(e) else "histogram_of_constant_feature"))
                raise EndRun()
            tb = traceback.extract_tb(e.__traceback__)
            where = ""
            for fr in reversed(tb):
                if "menelaus" in fr.filename:
                    where = f"{os.path.basename(fr.filename)}:{fr.name}"
                    break
            self.violation(
                "exception",
                f"{sig_prefix}:exception:{type(e).__name__}",
                f"{type(e).__name__}: {str(e)[:200]} at {where}",
            )
            raise EndRun()


# --------------------------------------------------------------------------------------------
# known findings
# --------------------------------------------------------------------------------------------
def load_known(prop):
    try:
        with open(KNOWN_FILE) as f:
            data = json.load(f)
    except FileNotFoundError:
        return []
    return [k for k in data.get("known", []) if k.get("property") == prop]


# --------------------------------------------------------------------------------------------
# executing one case
# --------------------------------------------------------------------------------------------
def run_case(mod, case, known_sigs=()):
    """Execute one case.  Returns an outcome dict (JSON-able)."""
    import numpy as np
    import warnings

    ctx = Ctx(mod.PROP, known_sigs)
    out = {"violation": None, "harness": None, "near_tie": False}
    state = np.random.get_state()
    try:
        with warnings.catch_warnings():
            warnings.simplefilter("ignore")
            with np.errstate(all="ignore"):
                if isinstance(case, dict) and case.get("bystanders") is not None:
                    from sim import bystander, seams

                    seams.PAUSED[0] = True
                    try:
                        ctx.fleet = bystander.Fleet(mod.PROP, case["bystanders"])
                    finally:
                        seams.PAUSED[0] = False
                if isinstance(case, dict) and case.get("fork"):
                    ctx.fork_plan = dict(case["fork"])
                # a restored snapshot or a retyped parameter may move a float by an ulp (another memory layout, another scalar type):
                # twins of such a run are compared with the float tolerance instead of digit by digit
                ctx.relaxed = isinstance(case, dict) and bool(case.get("fork") or case.get("retype") is not None)
                mod.run(case, ctx)
    except Violation as v:
        out["violation"] = v.as_dict()
    except NearTie:
        out["near_tie"] = True
    except EndRun:
        pass
    except ValueError as e:
        if "Too many bins for data range" in str(e):   # the model's own histogram of a feature that is constant as far as floats can tell
            ctx.note("documented_refusal:histogram_of_constant_feature")
        else:
            out["harness"] = f"{type(e).__name__}: {e}\n" + traceback.format_exc(limit=8)
    except Exception as e:  # noqa: BLE001
        out["harness"] = f"{type(e).__name__}: {e}\n" + traceback.format_exc(limit=8)
    finally:
        np.random.set_state(state)
    if isinstance(case, dict) and case.get("drift_positions"):
        ctx.fault("environment_regime_change_in_workload", len(case["drift_positions"]))
    if ctx.fleet is not None:
        ctx.fault("bystander_instance_update_interleaved", ctx.fleet.moves)
        ctx.probe("runs_with_bystander_fleet")
        ctx.fleet = None
    out.update(
        digest=ctx.digest(),
        nontrivial=bool(ctx.nontrivial),
        sim_time=ctx.sim_time,
        probes=dict(ctx.probes),
        faults=dict(ctx.faults),
        states=sorted(ctx.states),
        near_ties=ctx.near_ties,
        known=list(ctx.known_hits),
        notes=dict(ctx.notes),
    )
    return out


def make_case(mod, prop, scenario, verif_seed, i, tier):
    rs = derive(verif_seed, prop, scenario, i)
    if hasattr(mod, "gen_indexed") and scenario in getattr(mod, "INDEXED_SCENARIOS", ()):
        case = mod.gen_indexed(scenario, i, tier)      # index-derived (seed-independent) enumeration scenario
    else:
        case = mod.gen(random.Random(rs), scenario, tier)
    case["scenario"] = scenario
    case["run_seed"] = rs
    case["index"] = i
    # one run in four shares its process with a fleet of bystander instances (other users of the library)
    every = 4 if scenario not in getattr(mod, "INDEXED_SCENARIOS", ()) else 16    # (index-derived enumerations are thousands of tiny runs)
    if "bystanders" not in case and getattr(mod, "BYSTANDERS", True) and derive(rs, "bystanders?") % every == 0:
        case["bystanders"] = derive(rs, "bystander-seed") % (2**31)
    # one run in six hands one constructor parameter over as another numeric type of equal value (adapters.retyped)
    if "retype" not in case and derive(rs, "retype?") % 6 == 0:
        case["retype"] = derive(rs, "retype-seed") % (2**31)
    # one run in five snapshots and restores its detector at an arbitrary instant (checks that support it call ctx.maybe_fork)
    if "fork" not in case and getattr(mod, "FORKS", False) and derive(rs, "fork?") % 5 == 0:
        d = derive(rs, "fork-at")
        case["fork"] = {"at": 1 + (d % 9 if d % 3 else (d // 7) % 120), "how": "deepcopy" if (d // 3) % 2 else "pickle"}
        if (d // 11) % 3 == 0:
            case["fork"] = {"at": 1 + (d // 13) % 3, "how": case["fork"]["how"], "when": "drift"}
    return case


# --------------------------------------------------------------------------------------------
# worker side
# --------------------------------------------------------------------------------------------
_W = {}


def _worker_chunk(args):
    modname, prop, scenario, verif_seed, idxs, tier, deadline, known_sigs, hang_s = args
    import importlib

    mod = importlib.import_module(modname)
    res = []
    for i in idxs:
        if time.time() > deadline:
            res.append({"i": i, "scenario": scenario, "skipped": True})
            continue
        faulthandler.dump_traceback_later(hang_s, exit=True)
        try:
            case = make_case(mod, prop, scenario, verif_seed, i, tier)
            out = run_case(mod, case, known_sigs)
        except Exception as e:  # generator failure = harness error
            out = {"harness": f"gen: {type(e).__name__}: {e}\n" + traceback.format_exc(limit=8), "violation": None}
        finally:
            faulthandler.cancel_dump_traceback_later()
        out["i"] = i
        out["scenario"] = scenario
        res.append(out)
    return res


# --------------------------------------------------------------------------------------------
# minimisation
# --------------------------------------------------------------------------------------------
def _still_fails(mod, case, sig, known_sigs):
    out = run_case(mod, case, known_sigs)
    v = out["violation"]
    return v is not None and v["sig"] == sig


def minimise(mod, case, sig, known_sigs, budget_s=60.0):
    """Structure-aware reduction: truncate after the failing step, ddmin over events, then the
    property's own payload/knob shrinkers, until nothing changes or the budget is used."""
    t_end = time.time() + budget_s
    best = case
    fix = getattr(mod, "fix", lambda c: c)

    def attempt(cand):
        nonlocal best
        if cand is None:
            return False
        cand = fix(cand)
        if cand is None:
            return False
        if _still_fails(mod, cand, sig, known_sigs):
            best = cand
            return True
        return False

    # 1. truncate
    out = run_case(mod, best, known_sigs)
    if out["violation"] and isinstance(out["violation"]["step"], int) and hasattr(mod, "truncate"):
        attempt(mod.truncate(dict(best), out["violation"]["step"]))
    # 2. ddmin on events
    ev_key = getattr(mod, "EVENTS_KEY", "events")
    if ev_key in best:
        n = 2
        while len(best[ev_key]) >= 2 and time.time() < t_end:
            evs = best[ev_key]
            chunk = max(1, len(evs) // n)
            reduced = False
            for start in range(0, len(evs), chunk):
                if time.time() > t_end:
                    break
                cand = dict(best)
                cand[ev_key] = evs[:start] + evs[start + chunk:]
                if not cand[ev_key]:
                    continue
                if attempt(cand):
                    n = max(n - 1, 2)
                    reduced = True
                    break
            if not reduced:
                if chunk == 1:
                    break
                n = min(len(evs), n * 2)
    # 3. property-specific shrinkers
    if hasattr(mod, "shrink"):
        progress = True
        while progress and time.time() < t_end:
            progress = False
            for cand in mod.shrink(best):
                if time.time() > t_end:
                    break
                if attempt(cand):
                    progress = True
                    break
    return best


# --------------------------------------------------------------------------------------------
# replay files
# --------------------------------------------------------------------------------------------
def versions():
    import numpy
    import pandas
    import scipy
    import sklearn

    return {
        "python": sys.version.split()[0],
        "numpy": numpy.__version__,
        "pandas": pandas.__version__,
        "scipy": scipy.__version__,
        "sklearn": sklearn.__version__,
    }


def write_replay(prop, case, violation, verif_seed, original_len=None):
    os.makedirs(REPLAY_DIR, exist_ok=True)
    body = {
        "property": prop,
        "verif_seed": verif_seed,
        "scenario": case.get("scenario"),
        "run_seed": case.get("run_seed"),
        "expect": violation,
        "original_events": original_len,
        "versions": versions(),
        "case": case,
    }
    text = json.dumps(body, indent=1, sort_keys=True, default=_json_default)
    dg = hashlib.sha1(text.encode()).hexdigest()[:10]
    path = os.path.join(REPLAY_DIR, f"{prop}-{verif_seed}-{dg}.json")
    with open(path, "w") as f:
        f.write(text)
    return path


def _json_default(o):
    import numpy as np

    if isinstance(o, np.generic):
        return o.item()
    if isinstance(o, np.ndarray):
        return o.tolist()
    if isinstance(o, (set, frozenset)):
        return sorted(o)
    return repr(o)


def replay(mod, path):
    with open(path) as f:
        body = json.load(f)
    known = [k["sig"] for k in load_known(mod.PROP)]
    out = run_case(mod, body["case"], known)
    exp = body.get("expect") or {}
    if out["harness"]:
        print("HARNESS-ERROR", out["harness"])
        return 2
    v = out["violation"]
    if v is None:
        print(f"replay: no violation reproduced (expected sig={exp.get('sig')}); digest={out['digest']}")
        for s in out["known"]:
            print(f"KNOWN-FINDING: property={mod.PROP} {s}")
        return 0
    print(f"replay: violation kind={v['kind']} sig={v['sig']} step={v['step']}")
    print(f"        detail: {v['detail']}")
    print(f"        digest={out['digest']} same_as_recorded={v['sig'] == exp.get('sig')}")
    print(f"VIOLATION property={mod.PROP} replay={path}")
    return 1


# --------------------------------------------------------------------------------------------
# batch runner
# --------------------------------------------------------------------------------------------
def run_check(mod, tier, verif_seed, jobs):
    t0 = time.time()
    prop = mod.PROP
    known_entries = load_known(prop)
    known_sigs = [k["sig"] for k in known_entries]
    scen = mod.scenarios(tier)  # list of (name, n_runs)
    budget = float(os.environ.get("VERIF_BUDGET_S", 170 if tier == "quick" else 2400))
    deadline = t0 + budget
    hang_s = 300 if tier == "quick" else 1200
    tasks = []
    for name, n in scen:
        per = max(1, min(25, n // (jobs * 3) or 1))
        idxs = list(range(n))
        for s in range(0, n, per):
            tasks.append((mod.__name__, prop, name, verif_seed, idxs[s:s + per], tier, deadline, known_sigs, hang_s))
    # interleave scenarios so a budget cut hits all of them evenly
    heavy = list(getattr(mod, "HEAVY", []))
    tasks.sort(key=lambda t: (0 if t[2] in heavy else 1, t[4][0] / max(1, dict(scen)[t[2]]), t[2]))
    results = []
    harness = None
    try:
        ctxmp = multiprocessing.get_context("fork")
        with ProcessPoolExecutor(max_workers=jobs, mp_context=ctxmp) as ex:
            for chunk in ex.map(_worker_chunk, tasks, timeout=budget + hang_s + 60):
                results.extend(chunk)
    except Exception as e:  # worker died / timeout
        harness = f"pool: {type(e).__name__}: {e}"
    executed = [r for r in results if not r.get("skipped")]
    executed.sort(key=lambda r: (r["scenario"], r["i"]))
    for r in executed:
        if r.get("harness") and harness is None:
            harness = f"scenario={r['scenario']} i={r['i']}: {r['harness']}"

    # determinism spot check: first 2 indices of every scenario again, in this (other) process
    if harness is None:
        t_spot = time.time() + (8 if tier == "quick" else 60)
        heavy = list(getattr(mod, "HEAVY", []))
        for name, n in sorted(scen, key=lambda s: s[0] in heavy):
            for i in range(min(2, n)):
                if time.time() > t_spot:
                    break
                ref = next((r for r in executed if r["scenario"] == name and r["i"] == i), None)
                if ref is None:
                    continue
                again = run_case(mod, make_case(mod, prop, name, verif_seed, i, tier), known_sigs)
                if again["digest"] != ref["digest"]:
                    harness = f"nondeterministic run: scenario={name} i={i} digest {ref['digest']} vs {again['digest']}"

    viols = [r for r in executed if r.get("violation")]
    replay_path = None
    vio_info = None
    if harness is None and viols:
        ev_key = getattr(mod, "EVENTS_KEY", "events")

        def fresh(path, sig):
            cp = subprocess.run([sys.executable, os.path.join(VERIF_DIR, "check.py"), prop, "--replay", path],
                                capture_output=True, text=True, timeout=600)
            return cp.returncode == 1 and f"sig={sig}" in cp.stdout, cp

        # A reported violation must be a function of its case alone: it has to reproduce from its replay file in a FRESH
        # interpreter.  A worker process executes many runs; if the code under test leaks state between instances (a mutable
        # default argument, a class attribute, a module-level cache) a run can fail because of what an EARLIER run left behind.
        # Such a run does not replay on its own - but a run whose own bystander fleet produces the leak does.  So the violating
        # runs are tried in order until one replays (at most 6); only if none does is the outcome a harness error.
        last = None
        for cand in viols[:6]:
            case = make_case(mod, prop, cand["scenario"], verif_seed, cand["i"], tier)
            sig = cand["violation"]["sig"]
            orig_len = len(case.get(ev_key, []))
            raw_path = write_replay(prop, case, cand["violation"], verif_seed, orig_len)
            ok, cp = fresh(raw_path, sig)
            last = (sig, raw_path, cp)
            if not ok:
                continue
            try:
                small = minimise(mod, case, sig, known_sigs, budget_s=45 if tier == "quick" else 240)
            except Exception as e:  # noqa: BLE001
                small = case
                print(f"note: minimisation failed ({type(e).__name__}: {e}); reporting the unminimised case")
            out = run_case(mod, small, known_sigs)
            vio_info, replay_path = cand["violation"], raw_path
            if small is not case and out["violation"] and out["violation"]["sig"] == sig:
                small_path = write_replay(prop, small, out["violation"], verif_seed, orig_len)
                ok2, _ = fresh(small_path, sig)
                if ok2:
                    vio_info, replay_path = out["violation"], small_path
                    if small_path != raw_path:
                        try:
                            os.remove(raw_path)
                        except OSError:
                            pass
            break
        else:
            sig, raw_path, cp = last
            harness = (
                f"violation sig={sig} did not reproduce from {raw_path} in a fresh interpreter (nor did {min(len(viols), 6) - 1} other violating run(s)) "
                f"(exit {cp.returncode}): {cp.stdout[-400:]} {cp.stderr[-400:]}"
            )

    wall = time.time() - t0
    ev = build_evidence(mod, tier, verif_seed, executed, results, wall, viols, known_entries, scen, jobs)
    os.makedirs(EVIDENCE_DIR, exist_ok=True)
    with open(os.path.join(EVIDENCE_DIR, f"{prop}.json"), "w") as f:
        json.dump(ev, f, indent=1, default=_json_default)

    hits = Counter()
    for r in executed:
        for s in r.get("known", []):
            hits[s] += 1
    for k in known_entries:
        if hits.get(k["sig"]):
            print(f"KNOWN-FINDING: property={prop} {k['sig']} -- {k.get('what', '')[:220]} ... (hit in {hits[k['sig']]} runs; full text in known_findings.json)")
    cov = ev["coverage"]
    print(
        f"{prop} tier={tier} seed={verif_seed} runs={cov['evaluations']} nontrivial_distinct={cov['distinct_nontrivial']} "
        f"sim_time={cov['sim_time']} violations={len(viols)} wall={wall:.1f}s"
    )
    if harness is not None:
        print(f"HARNESS-ERROR property={prop} {harness}")
        return 2
    if not executed:
        print(f"HARNESS-ERROR property={prop} no run was executed within the budget")
        return 2
    if viols:
        print(f"violation: kind={vio_info['kind']} sig={vio_info['sig']} step={vio_info['step']}")
        print(f"           {vio_info['detail']}")
        print(f"           ({len(viols)} of {len(executed)} runs violated; distinct sigs: "
              f"{sorted(set(v['violation']['sig'] for v in viols))[:8]})")
        print(f"VIOLATION property={prop} replay={replay_path}")
        return 1
    return 0


def build_evidence(mod, tier, verif_seed, executed, results, wall, viols, known_entries, scen, jobs):
    probes, faults, notes = Counter(), Counter(), Counter()
    states = set()
    sim_time = 0
    near = 0
    nontrivial_digests = set()
    per_scen = Counter()
    per_scen_nt = Counter()
    for r in executed:
        probes.update(r.get("probes", {}))
        faults.update(r.get("faults", {}))
        notes.update(r.get("notes", {}))
        states.update(r.get("states", []))
        sim_time += r.get("sim_time", 0)
        near += r.get("near_ties", 0) + (1 if r.get("near_tie") else 0)
        per_scen[r["scenario"]] += 1
        if r.get("nontrivial"):
            nontrivial_digests.add((r["scenario"], r["digest"]))
            per_scen_nt[r["scenario"]] += 1
    samples = []
    for name, n in scen:
        if n <= 0:
            continue
        try:
            case = make_case(mod, mod.PROP, name, verif_seed, 0, tier)
            samples.append(mod.summarize(case) if hasattr(mod, "summarize") else _default_summary(case))
        except Exception as e:  # noqa: BLE001
            samples.append({"scenario": name, "error": repr(e)})
    skipped = sum(1 for r in results if r.get("skipped"))
    hits = Counter()
    for r in executed:
        for s in r.get("known", []):
            hits[s] += 1
    extra = {}
    if hasattr(mod, "evidence_extra"):
        try:
            extra = mod.evidence_extra(states)
        except Exception as e:  # noqa: BLE001
            extra = {"evidence_extra_error": repr(e)}
    return {
        "property_id": mod.PROP,
        "tier": tier,
        "seed": int(verif_seed),
        "level": mod.LEVEL,
        "wall_s": round(wall, 2),
        "violations": len(viols),
        "coverage": {
            "evaluations": len(executed),
            "distinct_nontrivial": len(nontrivial_digests),
            "rule": mod.RULE,
            "samples": samples[:6],
            "exhaustive": False,
            "runs_per_scenario": dict(per_scen),
            "nontrivial_per_scenario": dict(per_scen_nt),
            "skipped_by_budget": skipped,
            "sim_time": sim_time,
            "sim_time_unit": getattr(mod, "SIM_TIME_UNIT", "accepted calls into menelaus (logical time)"),
            "runs_per_hour": int(len(executed) / max(wall, 1e-6) * 3600),
            "workers": jobs,
            "fault_counts": dict(faults),
            "probes": dict(probes),
            "distinct_states": len(states),
            "state_measure": getattr(mod, "STATE_MEASURE", "distinct abstract (detector, phase, state) tuples visited"),
            "near_ties": near,
            "notes": dict(notes),
            "real_components": getattr(mod, "REAL", ["all of menelaus", "numpy", "scipy", "pandas", "scikit-learn"]),
            "stub_components": getattr(mod, "STUBS", []),
            "white_box_reads": getattr(mod, "WHITE_BOX", []),
            "known_findings_hit": dict(hits),
            **extra,
        },
        "assumptions": getattr(mod, "ASSUMPTIONS", []) + [
            "numpy/scipy/pandas/scikit-learn are trusted (reference models use them too)",
            "sampling, not proof: a clean batch means no counterexample among the seeded histories explored",
        ],
    }


def _default_summary(case):
    ev_key = "events"
    evs = case.get(ev_key, [])
    return {
        "scenario": case.get("scenario"),
        "cfg": case.get("cfg"),
        "n_events": len(evs),
        "first_events": evs[:6],
    }


def print_digests(mod, tier, verif_seed, jobs, n):
    """Self-test support: digests of the first n runs of every scenario, computed through the worker pool."""
    known_sigs = [k["sig"] for k in load_known(mod.PROP)]
    tasks = []
    deadline = time.time() + 3600
    for name, total in mod.scenarios(tier):
        idxs = list(range(min(n, total)))
        per = max(1, len(idxs) // max(1, jobs))
        for s in range(0, len(idxs), per):
            tasks.append((mod.__name__, mod.PROP, name, verif_seed, idxs[s:s + per], tier, deadline, known_sigs, 1200))
    out = {}
    ctxmp = multiprocessing.get_context("fork")
    with ProcessPoolExecutor(max_workers=jobs, mp_context=ctxmp) as ex:
        for chunk in ex.map(_worker_chunk, tasks):
            for r in chunk:
                out.setdefault(r["scenario"], {})[r["i"]] = r.get("digest") if not r.get("harness") else "HARNESS:" + r["harness"][:80]
    print("DIGESTS " + json.dumps({k: [v[i] for i in sorted(v)] for k, v in sorted(out.items())}))
    return 0
