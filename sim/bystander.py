"""Bystanders: other users of the library living in the same process as the run under test.

A detector is a node; a real process usually hosts several of them (one per feature, per model, per
ensemble).  Every property is stated for a detector "on its own", so it has to hold whatever other
instances do in the same interpreter.  A bystander fleet is a handful of further instances of the
classes the property touches (other parameters, other data), created before the run and stepped by
the scheduler *between* the calls of the run under test (one bystander update per accepted call,
chosen by the fleet's own PRNG).  State shared through class attributes, mutable default arguments or
module-level caches then shows up as a divergence from the reference model / twin.

The fleet is part of the case (`case["bystanders"] = seed`), so a violation found with it replays.
It never disturbs the seed schedule of the run under test: the global numpy state is saved before a
bystander moves and restored afterwards.
"""
import random

import numpy as np

from sim import adapters as A
from sim import workload as W

FLEETS = {
    "C01": A.ALL, "C02": A.ALL, "C03": ["ADWIN", "ADWINAccuracy"], "C04": ["CUSUM", "PageHinkley", "PCACD"],
    "C05": ["DDM", "EDDM", "STEPD"], "C06": ["LinearFourRates", "LinearFourRates"], "C07": ["HDDDM", "CDBD", "HDDDM"],
    "C08": ["KdqTreeBatch", "KdqTreeStreaming", "partitioner"], "C09": ["KdqTreeBatch", "KdqTreeStreaming", "partitioner"],
    "C10": ["NNDVI", "NNDVI"], "C11": ["PCACD", "PageHinkley"], "C12": A.ALL + ["ensemble"] * 5, "C13": ["election"],
    "C14": A.ALL, "C15": A.ALL, "C16": A.STREAM_Y + ["ADWIN", "KdqTreeBatch"], "C17": A.ALL, "C18": A.BATCH, "C19": ["MD3"],
}


class _Member:
    def __init__(self, name, rng):
        self.name, self.rng = name, rng
        self.dead = False
        self.n = 0
        build = getattr(self, "_build_" + (name if name in ("partitioner", "ensemble", "election", "MD3") else "detector"))
        build()

    # -- ordinary detectors
    def _build_detector(self):
        rng, name = self.rng, self.name
        self.det = A.build(name, A.sample_cfg(rng, name))
        k = A.kind(name)
        self.k = k
        if k == "x":
            vals, _ = W.stream_values(rng, 150, kind="gauss", drift_rate=0.03)
            self.data = [[v] for v in vals]
        elif k == "y":
            self.data, _ = W.outcomes(rng, 150, burst=0.05)
        elif k == "xx":
            d = 2 if name == "PCACD" else rng.randint(1, 3)
            self.data, _ = W.mv_stream(rng, 150, d, drift_rate=0.03)
        else:
            d = 1 if name == "CDBD" else rng.randint(1, 3)
            self.data, _ = W.batches(rng, 16, d, size_lo=12, size_hi=30, drift_rate=0.4)
            self.det.set_reference(np.array(self.data[0], dtype=float))
            self.n = 1

    def _step_detector(self):
        item = self.data[self.n % len(self.data)]
        if self.k == "x":
            self.det.update(item[0])
        elif self.k == "y":
            self.det.update(item[0], item[1])
        elif self.k == "xx":
            self.det.update(np.array([item], dtype=float))
        else:
            self.det.update(np.array(item, dtype=float))

    # -- the kdq-tree partitioner used directly
    def _build_partitioner(self):
        from menelaus.partitioners import KDQTreePartitioner

        rng = self.rng
        self.d = rng.randint(1, 3)
        self.part = KDQTreePartitioner(count_ubound=rng.randint(1, 6), cutpoint_proportion_lbound=2e-10)
        self.part.build(np.array([[rng.gauss(3, 2) for _ in range(self.d)] for _ in range(rng.randint(10, 60))]))

    def _step_partitioner(self):
        rng = self.rng
        pts = np.array([[rng.gauss(3, 2) for _ in range(self.d)] for _ in range(rng.randint(1, 20))])
        self.part.fill(pts, tree_id=rng.choice(["test", "other"]), reset=rng.random() < 0.5)
        if rng.random() < 0.5:
            self.part.kl_distance("build", "test") if "test" in self.part.node.num_samples_in_compared_subtrees else None
            self.part.to_plotly_dataframe("build", rng.choice([None, "test"]) if "test" in self.part.node.num_samples_in_compared_subtrees else None)

    # -- an ensemble of two change detectors with an election
    def _build_ensemble(self):
        from menelaus.change_detection import ADWIN, PageHinkley
        from menelaus.ensemble import StreamingEnsemble
        from menelaus.ensemble.election import ConfirmedElection, SimpleMajorityElection

        rng = self.rng
        el = ConfirmedElection(sensitivity=1, wait_time=rng.randint(1, 4)) if rng.random() < 0.5 else SimpleMajorityElection()
        self.ens = StreamingEnsemble({"a": ADWIN(delta=0.1, new_sample_thresh=2, window_size_thresh=4), "p": PageHinkley(burn_in=3, threshold=2)}, el)
        self.vals, _ = W.stream_values(rng, 150, kind="gauss", drift_rate=0.05)
        # this ensemble was built without selectors; its user then configures selectors on IT, under member names another ensemble
        # in the process may use as well
        first = lambda X: X[:, :1] if isinstance(X, np.ndarray) else X.iloc[:, :1]  # noqa: E731
        for nme in A.ALL:
            for j in range(6):
                self.ens.column_selectors[f"{nme}_{j}"] = first
        from menelaus.ensemble import BatchEnsemble
        from menelaus.data_drift import KdqTreeBatch

        self.bens = BatchEnsemble({"k": KdqTreeBatch(bootstrap_samples=5)}, SimpleMajorityElection())
        for nme in A.ALL:
            for j in range(6):
                self.bens.column_selectors[f"{nme}_{j}"] = first

    def _step_ensemble(self):
        self.ens.update(X=np.array([[self.vals[self.n % len(self.vals)]]]), y_true=None, y_pred=None)

    # -- elections evaluated on scripted members
    def _build_election(self):
        from menelaus.ensemble import election as E

        rng = self.rng
        self.els = [E.SimpleMajorityElection(), E.MinimumApprovalElection(approvals_needed=rng.randint(1, 3)),
                    E.OrderedApprovalElection(approvals_needed=rng.randint(1, 2), confirmations_needed=rng.randint(1, 2)),
                    E.ConfirmedElection(sensitivity=rng.randint(1, 3), wait_time=rng.randint(1, 5))]
        self.nm = rng.randint(1, 5)

    def _step_election(self):
        class _D:
            def __init__(self, s):
                self.drift_state = s

        rng = self.rng
        members = [_D(rng.choice([None, None, "warning", "drift", "drift"])) for _ in range(self.nm)]
        for e in self.els:
            e(members)

    # -- MD3 with the stub classifier of the C19 check
    def _build_MD3(self):
        from menelaus.concept_drift import MD3

        from sim.props import c19

        rng = self.rng
        rows = [c19._row(rng, 0.5, 0.1) for _ in range(rng.randint(12, 30))]
        ref = c19._frame(rows)
        clf = c19.Stub(0.4).fit(ref[["a", "b"]], ref["y"])
        self.det = MD3(clf, margin_calculation_function=c19.margin_fn, sensitivity=rng.choice([0.5, 1.5]), k=rng.randint(2, 4), oracle_data_length_required=rng.randint(4, 9))
        self.det.set_reference(ref, target_name="y")
        self.c19 = c19

    def _step_MD3(self):
        row = self.c19._row(self.rng, self.rng.choice([0.0, 1.5]), self.rng.choice([0.0, 0.5]))
        if self.det.waiting_for_oracle:
            self.det.give_oracle_label(self.c19._frame([row]))
        else:
            self.det.update(self.c19._frame([row])[["a", "b"]])

    def step(self):
        if self.dead:
            return
        try:
            getattr(self, "_step_" + (self.name if self.name in ("partitioner", "ensemble", "election", "MD3") else "detector"))()
        except Exception:  # noqa: BLE001 - a bystander that leaves its own domain (e.g. CUSUM's zero variance) simply stops
            self.dead = True
        self.n += 1


class Fleet:
    def __init__(self, prop, seed):
        rng = random.Random(seed)
        names = list(FLEETS.get(prop, A.ALL))
        rng.shuffle(names)
        self.rng = rng
        self.members = []
        state = np.random.get_state()
        try:
            for name in names[: rng.randint(2, 4)]:
                np.random.seed(rng.randrange(2**31))
                try:
                    self.members.append(_Member(name, random.Random(rng.randrange(2**62))))
                except Exception:  # noqa: BLE001
                    pass
            for _ in range(rng.randint(0, 25)):     # some history before the run under test starts
                self._move()
        finally:
            np.random.set_state(state)
        self.moves = 0

    def _move(self):
        if self.members:
            np.random.seed(self.rng.randrange(2**31))
            self.rng.choice(self.members).step()

    def tick(self):
        """One bystander update between two calls of the run under test (numpy's global state is preserved)."""
        state = np.random.get_state()
        try:
            self._move()
            self.moves += 1
        finally:
            np.random.set_state(state)
