"""One adapter per public detector: seeded knob sampler (small, fast settings; swarm style), builder,
input kind, and an `observe` function returning everything a caller can see.  Private attributes are
read with getattr(..., None) only as *additional* observables of twin comparisons; a missing one
is simply not compared."""
import numpy as np

STREAM_X = ["ADWIN", "CUSUM", "PageHinkley"]          # univariate real stream
STREAM_Y = ["ADWINAccuracy", "DDM", "EDDM", "STEPD", "LinearFourRates"]  # (y_true, y_pred) stream
STREAM_XX = ["KdqTreeStreaming", "PCACD"]              # multivariate stream
BATCH = ["KdqTreeBatch", "HDDDM", "CDBD", "NNDVI"]
ALL = STREAM_X + STREAM_Y + STREAM_XX + BATCH          # MD3 is driven by the protocol engine (c19)
RATES = ["tpr", "tnr", "ppv", "npv"]


def kind(name):
    if name in STREAM_X:
        return "x"
    if name in STREAM_Y:
        return "y"
    if name in STREAM_XX:
        return "xx"
    return "batch"


def cls(name):
    import menelaus.change_detection as cd
    import menelaus.concept_drift as co
    import menelaus.data_drift as dd

    for m in (cd, co, dd):
        if hasattr(m, name):
            return getattr(m, name)
    raise KeyError(name)


def retyped(cfg, seed, skip=("online_scaling",)):
    """The same parameter values, one of them handed over as another numeric type of equal value (what a parameter grid built
    with numpy, a config parser or a CLI yields): a float as numpy.float64 or - when integral - as int, a bool as numpy.bool_
    or 0 / 1.  Integer parameters are left alone (several constructors insist on `int`), and so is PCACD.online_scaling, whose
    non-bool values the C11 check treats on its own."""
    import random

    rng = random.Random(seed)
    keys = [k for k, v in sorted(cfg.items()) if isinstance(v, (float, bool)) and k not in skip]
    if not keys:
        return dict(cfg)
    k = rng.choice(keys)
    v = cfg[k]
    out = dict(cfg)
    if isinstance(v, bool):
        out[k] = rng.choice([np.bool_(v), int(v)])
    elif float(v).is_integer() and rng.random() < 0.5:
        out[k] = int(v)
    else:
        out[k] = np.float64(v)
    return out


def build(name, cfg, retype=None):
    return cls(name)(**(cfg if retype is None else retyped(cfg, retype)))


def sample_cfg(rng, name):
    """Detector knobs, randomised per run (JSON-able kwargs).  About one run in ten gets one knob at a legal extreme."""
    cfg = _sample_cfg(rng, name)
    if rng.random() < 0.1 and name in _EXTREME:
        k, vals = rng.choice(_EXTREME[name])
        cfg[k] = rng.choice(vals)
    return cfg


# legal but unusual knob values (the properties quantify over all parameter settings); one knob per run
_EXTREME = {
    "ADWIN": [("delta", [1e-12, 1e-300]), ("new_sample_thresh", [1]), ("max_buckets", [1, 12])],
    "ADWINAccuracy": [("delta", [1e-12, 1e-300]), ("max_buckets", [1, 12])],
    "CUSUM": [("threshold", [0, 0.5, 1e6]), ("delta", [0, 3.0])],
    "PageHinkley": [("delta", [0, 2.0]), ("threshold", [0.1, 1e6])],
    "DDM": [("warning_scale", [0]), ("drift_scale", [0, 50.0])],
    "EDDM": [("drift_thresh", [0.0, 1.0]), ("warning_thresh", [1.0, 0.0])],
    "STEPD": [("alpha_drift", [1e-20, 0.0, 0.9]), ("alpha_warning", [0.99, 1e-20])],
    "LinearFourRates": [("detect_level", [0.5, 0.001]), ("warning_level", [0.6]), ("time_decay_factor", [0.0, 0.999])],
    "KdqTreeStreaming": [("persistence", [0.0, 1.0]), ("alpha", [0.9, 0.001]), ("count_ubound", [1, 50])],
    "PCACD": [("delta", [0.5]), ("ev_threshold", [0.5, 0.999])],
    "KdqTreeBatch": [("alpha", [0.9, 0.001]), ("count_ubound", [1, 50])],
    "HDDDM": [("significance", [0.9, 0.001]), ("subsets", [1, 8])],
    "CDBD": [("significance", [0.9, 0.001]), ("subsets", [1, 8])],
    "NNDVI": [("alpha", [0.9, 0.001]), ("k_nn", [1])],
}


def _sample_cfg(rng, name):
    if name in ("ADWIN", "ADWINAccuracy"):
        return {"delta": rng.choice([0.002, 0.1, 0.5, 1.0]), "max_buckets": rng.randint(1, 5),
                "new_sample_thresh": rng.choice([1, 3, 8, 32]), "window_size_thresh": rng.randint(0, 10),
                "subwindow_size_thresh": rng.randint(1, 5), "conservative_bound": rng.random() < 0.3}
    if name == "CUSUM":
        return {"burn_in": rng.choice([2, 5, 12, 20]), "threshold": rng.choice([3, 5, 8]),
                "delta": rng.choice([0.005, 0.25]), "direction": rng.choice([None, "positive", "negative"])}
    if name == "PageHinkley":
        return {"burn_in": rng.choice([0, 1, 5, 20]), "threshold": rng.choice([1, 2, 5]),
                "delta": rng.choice([0.005, 0.1]), "direction": rng.choice(["positive", "negative"])}
    if name == "DDM":
        ws = rng.choice([1.5, 2.0, 2.5])
        return {"n_threshold": rng.choice([1, 2, 10, 30]), "warning_scale": ws, "drift_scale": ws + rng.choice([0.5, 1.0])}
    if name == "EDDM":
        return {"n_threshold": rng.choice([1, 2, 5, 10]), "warning_thresh": 0.95, "drift_thresh": rng.choice([0.9, 0.8])}
    if name == "STEPD":
        aw = rng.choice([0.2, 0.1, 0.05])
        return {"window_size": rng.choice([1, 2, 8, 15]), "alpha_warning": aw, "alpha_drift": aw * rng.choice([0.5, 0.06])}
    if name == "LinearFourRates":
        wl = rng.choice([0.3, 0.2, 0.1])
        tracked = [r for r in RATES if rng.random() < 0.7] or [rng.choice(RATES)]
        return {"time_decay_factor": rng.choice([0.5, 0.8, 0.9, 0.99]), "warning_level": wl,
                "detect_level": wl * rng.choice([1, 0.5, 0.2]), "burn_in": rng.choice([0, 1, 5, 15]),
                "num_mc": rng.randint(5, 12), "subsample": rng.choice([1, 1, 2, 3]), "rates_tracked": tracked,
                "round_val": rng.choice([1, 2, 4])}
    if name == "KdqTreeStreaming":
        return {"window_size": rng.choice([2, 5, 10, 20]), "persistence": rng.choice([0.05, 0.1, 0.3]),
                "alpha": rng.choice([0.1, 0.3]), "bootstrap_samples": rng.randint(5, 10), "count_ubound": rng.randint(2, 4)}
    if name == "PCACD":
        return {"window_size": rng.choice([20, 30]), "sample_period": rng.choice([0.05, 0.1]),
                # (non-lattice deltas: with windows below 50 PCA-CD's Page-Hinkley threshold is 0 and intersection scores live on a
                #  1/window lattice, so with delta 0.05 the cumulative sum lands EXACTLY on its minimum and one ulp of noise -
                #  another memory layout after a deepcopy, an int-typed input - decides the alarm; twins must not meet such ties)
                "divergence_metric": rng.choice(["kl", "intersection"]), "delta": rng.choice([0.013, 0.037]),
                "ev_threshold": rng.choice([0.8, 0.99]), "online_scaling": rng.random() < 0.6}
    if name == "KdqTreeBatch":
        return {"alpha": rng.choice([0.05, 0.2]), "bootstrap_samples": rng.randint(5, 12), "count_ubound": rng.randint(2, 6)}
    if name in ("HDDDM", "CDBD"):
        st = rng.choice(["tstat", "stdev"])
        return {"detect_batch": rng.choice([1, 2, 3]), "statistic": st,
                "significance": rng.choice([0.05, 0.2, 0.5]) if st == "tstat" else rng.choice([0.5, 1.0, 2.0]),
                "subsets": rng.randint(2, 5), "divergence": rng.choice(["H", "KL"])}
    if name == "NNDVI":
        return {"k_nn": rng.randint(2, 4), "sampling_times": rng.randint(8, 15), "alpha": rng.choice([0.05, 0.2])}
    raise KeyError(name)


def n_features(rng, name):
    if name in STREAM_X or name == "CDBD":
        return 1
    if name in STREAM_Y:
        return 0
    if name == "PCACD":
        return rng.randint(2, 4)
    return rng.randint(1, 3)


def counters(det):
    """(total, since_reset) whatever the base class."""
    for a, b in (("total_samples", "samples_since_reset"), ("total_batches", "batches_since_reset"),
                 ("total_updates", "updates_since_reset")):
        if hasattr(det, a):
            return getattr(det, a), getattr(det, b)
    return None, None


def _num(v):
    if v is None:
        return None
    a = np.asarray(v)
    if a.dtype == object:
        return [None if x is None else _num(x) for x in a.tolist()]
    if a.ndim == 0:
        return a.item()
    return a.tolist()


def observe(det, deep=True):
    """Everything a caller can observe after a call, as a JSON-able dict."""
    o = {"state": det.drift_state}
    t, s = counters(det)
    o["total"], o["since_reset"] = t, s
    if hasattr(det, "retraining_recs"):
        o["recs"] = _num(det.retraining_recs)
    if not deep:
        return o
    n = type(det).__name__
    if n in ("ADWIN", "ADWINAccuracy"):
        o["mean"], o["variance"] = _num(det.mean()), _num(det.variance())
    elif n == "CUSUM":
        o["target"], o["sd_hat"] = _num(det.target), _num(det.sd_hat)
        for a in ("_upper_bound", "_lower_bound"):
            v = getattr(det, a, None)
            if v:
                o[a] = _num(v[-1])
    elif n == "PageHinkley":
        for a in ("_sum", "_min", "_max", "_mean"):
            o[a] = _num(getattr(det, a, None))
    elif n == "STEPD":
        o["acc"] = [_num(det.recent_accuracy()), _num(det.past_accuracy()), _num(det.overall_accuracy())]
    elif n in ("DDM",):
        for a in ("_error_rate", "_error_std", "_error_rate_min", "_error_std_min"):
            o[a] = _num(getattr(det, a, None))
    elif n == "EDDM":
        for a in ("_dist_mean", "_dist_std", "_max_numerator", "_test_statistic"):
            o[a] = _num(getattr(det, a, None))
    elif n in ("HDDDM", "CDBD"):
        for a in ("current_distance", "beta", "reference_n"):
            if hasattr(det, a):
                o[a] = _num(getattr(det, a))
        if hasattr(det, "epsilon"):
            o["epsilon"] = _num(list(det.epsilon))
    elif n in ("KdqTreeStreaming", "KdqTreeBatch"):
        for a in ("_test_dist", "_critical_dist"):
            o[a] = _num(getattr(det, a, None))
    elif n == "NNDVI":
        if hasattr(det, "reference_batch"):
            o["reference_batch"] = _num(det.reference_batch)
    elif n == "PCACD":
        o["num_pcs"] = _num(det.num_pcs)
        cs = getattr(det, "_change_score", None)
        if cs is not None:
            o["_change_score"] = [round(float(v), 12) for v in cs]
    elif n == "LinearFourRates":
        o["all_drift_states_len"] = len(getattr(det, "all_drift_states", []))
    return o
