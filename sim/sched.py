"""Seeded baton-passing thread scheduler (C06).

`SimParallel` stands in for joblib.Parallel at the module-level seam of menelaus.concept_drift.lfr: it
starts one real thread per task, but exactly one of them runs at any instant.  A sys.settrace function
installed in the workers turns every `line` event in frames of the traced file into a pre-emption point:
with probability p_switch the running thread hands the baton to a runnable thread chosen by the run's
PRNG and parks.  Frames of other files (numpy, pandas) are never pre-empted, so no foreign lock is held
at a switch.  Every choice comes from the PRNG, so a schedule is a pure function of its seed; the switch
log is part of the observable trace.
"""
import random
import sys
import threading


class Baton:
    def __init__(self, seed, p_switch, traced_file):
        self.rng = random.Random(seed)
        self.p = p_switch
        self.file = traced_file
        # helpers of the traced file that live elsewhere in the same package are pre-emptible too (line granularity)
        import os

        self.package = os.path.dirname(os.path.dirname(os.path.abspath(traced_file.replace("<split>", "")))) + os.sep
        self.log = []
        self.switches = 0
        self.preemption_points = 0

    def run(self, tasks):
        n = len(tasks)
        self.done = [False] * n
        self.sems = [threading.Semaphore(0) for _ in range(n)]
        self.main = threading.Semaphore(0)
        self.errors = []
        self.results = [None] * n

        def worker(i, fn, a, kw):
            self.sems[i].acquire()
            sys.settrace(lambda fr, ev, arg, i=i: self._trace(i, fr, ev, arg))
            try:
                self.results[i] = fn(*a, **kw)
            except BaseException as e:  # noqa: BLE001
                self.errors.append(e)
            finally:
                sys.settrace(None)
                self.done[i] = True
                self._handoff(i, finished=True)

        threads = [threading.Thread(target=worker, args=(i,) + t, daemon=True) for i, t in enumerate(tasks)]
        for t in threads:
            t.start()
        first = self.rng.randrange(n)
        self.log.append(("start", first))
        self.sems[first].release()
        self.main.acquire()
        for t in threads:
            t.join()
        if self.errors:
            raise self.errors[0]
        return self.results

    def _handoff(self, me, finished=False):
        cand = [j for j, d in enumerate(self.done) if not d and j != me]
        if not cand:
            if finished:
                self.main.release()
            return
        nxt = self.rng.choice(cand)
        self.switches += 1
        self.log.append((me, nxt))
        self.sems[nxt].release()
        if not finished:
            self.sems[me].acquire()

    def _trace(self, i, frame, event, arg):
        fn = frame.f_code.co_filename
        if fn != self.file and not (self.package and fn.startswith(self.package)):
            return None

        def local(fr, ev, arg):
            if ev == "line":
                self.preemption_points += 1
                if self.rng.random() < self.p:
                    self._handoff(i)
            return local

        return local


class SimParallelFactory:
    """Builds the stand-ins for joblib.Parallel / joblib.delayed.  One factory per run."""

    def __init__(self, seed, p_switch, traced_file):
        self.seed, self.p, self.file = seed, p_switch, traced_file
        self.calls = 0
        self.switches = 0
        self.points = 0
        self.logs = []
        factory = self

        class SimParallel:
            def __init__(self, *a, **kw):
                self.kw = kw

            def __call__(self, tasks):
                tasks = list(tasks)
                b = Baton(factory.seed * 100003 + factory.calls, factory.p, factory.file)
                factory.calls += 1
                out = b.run(tasks)
                factory.switches += b.switches
                factory.points += b.preemption_points
                factory.logs.append(tuple(b.log))
                return out

        self.Parallel = SimParallel

    @staticmethod
    def delayed(f):
        return lambda *a, **k: (f, a, k)
