"""C17 - a stricter confidence setting never makes a detector alarm earlier.

Paired runs under one numpy seed schedule: one history, two instances that differ only in the
detection knob (ordered pair from a per-family grid); every call of both runs is made under the same
seed, so both see identical statistics and identical Monte-Carlo / bootstrap / permutation draws until
the looser one alarms - the relation is exact, not statistical.  Warning-knob pairs: drift positions
must be identical over the whole run and no warning may disappear when the warning knob is loosened.
"""
import numpy as np

from sim import adapters, workload
from sim.core import EndRun, np_seed

PROP = "C17"
LEVEL = "exploration"
RULE = (
    "14 detection-knob families (ADWIN delta, CUSUM / PageHinkley(+/-) threshold, DDM drift_scale, EDDM drift_thresh, STEPD "
    "alpha_drift, LFR detect_level, KdqTreeBatch / KdqTreeStreaming / NNDVI alpha, HDDDM / CDBD significance for tstat and "
    "stdev) and 4 warning-knob families (DDM, EDDM, STEPD, LFR) x ordered knob pairs from a grid x other knobs randomised x "
    "seeded histories, both runs under one per-call numpy seed schedule; first drift of the strict run must not precede "
    "the loose run's. Non-trivial (informative) pair: the loose run alarmed; distinct = distinct digests."
)
STATE_MEASURE = "distinct (family, loose alarmed?, strict alarmed?, sign of index difference) tuples"
WHITE_BOX = []

# family -> (detector, knob, grid ordered from loose to strict)
DETECT = {
    "ADWIN.delta": ("ADWIN", "delta", [1.0, 0.5, 0.1, 0.002, 1e-4]),
    "CUSUM.threshold": ("CUSUM", "threshold", [2, 3, 5, 8, 15]),
    "PH+.threshold": ("PageHinkley", "threshold", [1, 2, 5, 9, 20]),
    "PH-.threshold": ("PageHinkley", "threshold", [1, 2, 5, 9, 20]),
    "DDM.drift_scale": ("DDM", "drift_scale", [2.0, 2.5, 3.0, 3.5, 5.0]),
    "EDDM.drift_thresh": ("EDDM", "drift_thresh", [0.94, 0.9, 0.8, 0.6]),
    "STEPD.alpha_drift": ("STEPD", "alpha_drift", [0.8, 0.6, 0.05, 0.02, 0.003, 0.0001]),
    "LFR.detect_level": ("LinearFourRates", "detect_level", [0.1, 0.05, 0.02, 0.005]),
    "KdqB.alpha": ("KdqTreeBatch", "alpha", [0.9, 0.7, 0.4, 0.3, 0.2, 0.1, 0.06, 0.05, 0.04, 0.02, 0.01]),
    "KdqS.alpha": ("KdqTreeStreaming", "alpha", [0.9, 0.7, 0.4, 0.3, 0.2, 0.1, 0.06, 0.05, 0.04, 0.02, 0.01]),
    "NNDVI.alpha": ("NNDVI", "alpha", [0.9, 0.7, 0.6, 0.4, 0.3, 0.2, 0.1, 0.05, 0.04, 0.01]),
    "HDDDM.tstat": ("HDDDM", "significance", [0.5, 0.2, 0.05, 0.01]),
    "HDDDM.stdev": ("HDDDM", "significance", [0.25, 0.5, 1.0, 2.0, 3.0]),
    "CDBD.tstat": ("CDBD", "significance", [0.5, 0.2, 0.05, 0.01]),
    "CDBD.stdev": ("CDBD", "significance", [0.25, 0.5, 1.0, 2.0, 3.0]),
}
# family -> (detector, knob, grid ordered from tight to loose warning)
WARN = {
    "DDM.warning_scale": ("DDM", "warning_scale", [2.9, 2.5, 2.0, 1.5, 1.0]),
    "EDDM.warning_thresh": ("EDDM", "warning_thresh", [0.9, 0.93, 0.95, 0.99]),
    "STEPD.alpha_warning": ("STEPD", "alpha_warning", [0.01, 0.05, 0.1, 0.3, 0.6, 0.8]),
    "LFR.warning_level": ("LinearFourRates", "warning_level", [0.05, 0.1, 0.2, 0.4]),
}
COST = {"LFR.detect_level": 0.25, "LFR.warning_level": 0.25, "KdqS.alpha": 0.4, "NNDVI.alpha": 0.5, "KdqB.alpha": 2.0}


def scenarios(tier):
    k = 1 if tier == "quick" else 6
    out = []
    for fam in list(DETECT) + list(WARN):
        out.append((fam, int(260 * k * COST.get(fam, 1.0))))
    return out


def gen(rng, scenario, tier):
    fam = scenario
    warn = fam in WARN
    name, knob, grid = (WARN if warn else DETECT)[fam]
    cfg = adapters.sample_cfg(rng, name)
    i, j = sorted(rng.sample(range(len(grid)), 2))
    a, b = grid[i], grid[j]          # detect: a loose, b strict; warn: a tight, b loose
    if fam.startswith("PH+"):
        cfg["direction"] = "positive"
    if fam.startswith("PH-"):
        cfg["direction"] = "negative"
    if fam.endswith(".tstat"):
        cfg["statistic"] = "tstat"
    if fam.endswith(".stdev"):
        cfg["statistic"] = "stdev"
    # the knob that is NOT varied is randomised too, including legal-but-unusual "inverted" settings
    # (warning threshold stricter than the drift threshold)
    if name == "DDM":
        cfg["warning_scale"], cfg["drift_scale"] = rng.choice([1.0, 2.0, 3.5]), rng.choice([1.5, 3.0, 4.0])
    if name == "EDDM":
        cfg["warning_thresh"], cfg["drift_thresh"] = rng.choice([0.95, 0.85, 0.7]), rng.choice([0.9, 0.8, 0.97])
    if name == "STEPD":
        cfg["alpha_warning"], cfg["alpha_drift"] = rng.choice([0.05, 0.2, 0.001]), rng.choice([0.003, 0.05, 0.2])
    if name == "LinearFourRates":
        cfg["warning_level"], cfg["detect_level"] = rng.choice([0.2, 0.05, 0.01]), rng.choice([0.05, 0.02, 0.2])
    if name == "CUSUM" and rng.random() < 0.6:
        # known constants, mostly off target: the statistic then already moves inside the burn-in window
        cfg["target"], cfg["sd_hat"] = rng.choice([0.0, 2.0, -2.0, 5.0, -5.0]), rng.choice([0.5, 1.0, 2.0])
        cfg["burn_in"] = rng.choice([12, 20, 30])
    k = adapters.kind(name)
    if k == "batch":
        bs, drifts = workload.batches(rng, rng.randint(8, 18), adapters.n_features(rng, name), 10, 40, regimes=("offset", "tiny"))
        ev = [[b_, np_seed(rng)] for b_ in bs]
        refs = [i for i in range(1, len(ev)) if rng.random() < 0.25]     # explicit set_reference: thresholds are redrawn often
        if name == "KdqTreeBatch":
            cfg["bootstrap_samples"] = rng.choice([5, 6, 8, 12])
    elif k == "x":
        knd = rng.choice(["gauss", "ramp", "heavy"]) if name == "CUSUM" else None
        xs, drifts = workload.stream_values(rng, rng.randint(80, 300), kind=knd, regimes=("tiny",) if name == "ADWIN" else ("offset", "tiny"))
        ev = [[x, np_seed(rng)] for x in xs]
    elif k == "y":
        n = rng.randint(60, 140) if name == "LinearFourRates" else rng.randint(80, 300)
        xs, drifts = workload.outcomes(rng, n)
        ev = [[x, np_seed(rng)] for x in xs]
    else:
        xs, drifts = workload.mv_stream(rng, rng.randint(80, 220), adapters.n_features(rng, name), drift_rate=0.03)
        ev = [[x, np_seed(rng)] for x in xs]
    # half of the pairs run under ONE continuous seed (installed before the first call only): the relation then also
    # requires that the knob does not change how many random numbers a call consumes
    return {"family": fam, "det": name, "knob": knob, "a": a, "b": b, "cfg": cfg, "events": ev,
            "refs": refs if k == "batch" else [], "continuous": rng.random() < 0.5}


def _states(ctx, case, value, stop_at_drift):
    name = case["det"]
    cfg = dict(case["cfg"])
    cfg[case["knob"]] = value
    det = ctx.call(f"C17:{case['family']}:ctor", adapters.build, name, cfg)
    k = adapters.kind(name)
    out = []
    for i, (x, seed) in enumerate(case["events"]):
        if i == 0 or not case.get("continuous"):
            np.random.seed(seed)
        if k == "batch":
            X = np.array(x, dtype=float)
            if i == 0 or i in case.get("refs", []):
                ctx.call(f"C17:{case['family']}:set_reference", det.set_reference, X)
                continue
            ctx.call(f"C17:{case['family']}:update", det.update, X)
        elif k == "x":
            ctx.call(f"C17:{case['family']}:update", det.update, x)
        elif k == "y":
            ctx.call(f"C17:{case['family']}:update", det.update, x[0], x[1])
        else:
            ctx.call(f"C17:{case['family']}:update", det.update, np.array([x], dtype=float))
        ctx.sim_time += 1
        out.append(det.drift_state)
        if stop_at_drift and det.drift_state == "drift":
            break
    return out


def _first(states):
    for i, s in enumerate(states):
        if s == "drift":
            return i
    return None


def run(case, ctx):
    fam = case["family"]
    if fam in WARN:
        tight = _states(ctx, case, case["a"], False)
        loose = _states(ctx, case, case["b"], False)
        for i, (t, l) in enumerate(zip(tight, loose)):
            ctx.step = i
            if (t == "drift") != (l == "drift"):
                ctx.violation("warning_knob_moved_drift", f"C17:{fam}:drift_moved",
                              f"step {i}: {case['knob']}={case['a']} reports {t!r}, {case['knob']}={case['b']} reports {l!r}; cfg={case['cfg']}")
                raise EndRun()
            if t == "warning" and l != "warning":
                ctx.violation("warning_removed", f"C17:{fam}:warning_removed",
                              f"step {i}: tighter warning setting {case['a']} warns but the looser {case['b']} reports {l!r}; cfg={case['cfg']}")
                raise EndRun()
        ctx.nontrivial = "warning" in loose and "drift" in loose
        if tight != loose:
            ctx.probe("warning_sets_differ")
        ctx.obs(tight, loose)
        ctx.state(fam, "warning" in tight, "warning" in loose)
        return
    loose = _states(ctx, case, case["a"], True)
    strict = _states(ctx, case, case["b"], True)
    fl, fs = _first(loose), _first(strict)
    ctx.step = fs if fs is not None else len(strict)
    if fs is not None and (fl is None or fs < fl):
        ctx.violation("strict_earlier", f"C17:{fam}:strict_earlier",
                      f"{case['det']} with {case['knob']}={case['b']} (strict) first reports drift at step {fs}, with {case['knob']}={case['a']} (loose) at {fl}; cfg={case['cfg']}")
        raise EndRun()
    ctx.nontrivial = fl is not None
    if fl is not None and fs is not None and fs > fl:
        ctx.probe("strict_strictly_later")
    if fl is not None and fs is None:
        ctx.probe("strict_never_alarms")
    ctx.obs(fl, fs, loose, strict)
    ctx.state(fam, fl is not None, fs is not None, 0 if fl == fs else 1)


def summarize(case):
    return {"family": case["family"], "knob": case["knob"], "loose_or_tight": case["a"], "strict_or_loose": case["b"],
            "cfg": case["cfg"], "n_events": len(case["events"])}
