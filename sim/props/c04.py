"""C04 - CUSUM and Page-Hinkley apply their sequential tests to the current observations.

Degenerate simulation target: deterministic sequential state machines.  The simulator supplies seeded
multi-alarm histories with randomised knobs and the from-scratch per-epoch model as oracle.
"""
import numpy as np

from sim import workload
from sim.core import EndRun, close
from sim.models.change import cusum_step, ph_rows

PROP = "C04"
FORKS = True      # snapshot / restore events (core.Ctx.maybe_fork)
LEVEL = "exploration"
RULE = (
    "seeded real-valued streams (gaussian / ramp / heavy-tailed, level and variance shifts, 60-500 samples) x "
    "burn_in x delta x threshold x direction x known-or-estimated target; after every update the decision "
    "(CUSUM: also target/sd_hat; Page-Hinkley: all eight to_dataframe statistics) is compared with a "
    "non-incremental recomputation from the observations of the current epoch. Non-trivial run: >=2 alarms; "
    "distinct = distinct trace digests."
)
STATE_MEASURE = "distinct (detector, direction, state, epoch index capped at 5, in-burn-in flag) tuples"
WHITE_BOX = []
PH_COLS = ["change_scores", "page_hinkley_values", "page_hinkley_differences", "theta_threshold",
           "drift_detected", "maximum_sum_values", "minimum_sum_values", "mean_values"]


def scenarios(tier):
    k = 1 if tier == "quick" else 10
    # ph_long / cusum_long: one epoch of thousands of observations (and a CUSUM burn_in beyond 1000), then a change: whatever is
    # capped, trimmed or re-synchronised after ~1000 updates only shows there
    m = 3 if tier == "quick" else 10
    return [("cusum_est", 350 * k), ("cusum_known", 250 * k), ("ph", 500 * k), ("cusum_grid", 250 * k), ("ph_grid", 150 * k),
            ("ph_long", m), ("cusum_long", m)]


HEAVY = ["cusum_long", "ph_long"]


def _grid_stream(rng, n):
    """values on a dyadic grid (multiples of 0.25) so that the statistics are exact and land exactly on thresholds"""
    level = rng.choice([0.0, 0.0, 0.5, -0.5])
    out = []
    for _ in range(n):
        if rng.random() < 0.03:
            level = rng.choice([0.0, 0.5, 1.0, -0.5, -1.0, 2.0])
        out.append(level + rng.choice([-0.5, -0.25, 0.0, 0.0, 0.25, 0.5]))
    return out


def gen(rng, scenario, tier):
    n = rng.randint(60, 500)
    if scenario == "ph_long":
        n = rng.randint(1800, 2600)
        mu, sd = rng.choice([5.0, 20.0]), rng.choice([0.5, 1.0])
        n0 = n - rng.randint(250, 500)
        sign = 1 if rng.random() < 0.5 else -1
        xs = [round(rng.gauss(mu, sd) + (sign * 2.5 * sd * (t - n0) / (n - n0) if t >= n0 else 0.0), 4) for t in range(n)]
        cfg = {"det": "ph", "burn_in": rng.choice([0, 30]), "delta": rng.choice([0.05, 0.2]), "threshold": rng.choice([2, 4]),
               "direction": "positive" if sign > 0 else "negative"}
        return {"cfg": cfg, "events": xs, "drift_positions": [n0]}
    if scenario == "cusum_long":
        b = rng.randint(1100, 1900)
        n0 = rng.randint(max(b + 150, 2150), 2700)      # the change arrives after more than 2**11 observations, burn_in of them carried over
        n = n0 + rng.randint(300, 500)
        mu, sd = rng.choice([0.0, 50.0]), rng.choice([0.5, 2.0])
        xs = [round(rng.gauss(mu, sd) + (1.2 * sd if t >= n0 else 0.0), 4) for t in range(n)]
        # after the alarm the constants are re-estimated from the last burn_in (> 1000) observations; a second, opposite change follows
        xs += [round(rng.gauss(mu - 1.5 * sd, sd), 4) for _ in range(rng.randint(60, 200))]
        cfg = {"det": "cusum", "burn_in": b, "delta": 0.25, "threshold": rng.choice([8, 12]), "direction": None, "target": None, "sd_hat": None}
        return {"cfg": cfg, "events": xs, "drift_positions": [n0]}
    if scenario == "cusum_grid":
        xs = _grid_stream(rng, rng.randint(40, 200))
        cfg = {"det": "cusum", "burn_in": rng.choice([2, 4, 8]), "delta": rng.choice([0.0, 0.25, 0.5]), "threshold": rng.choice([1, 2, 3, 5]),
               "direction": rng.choice([None, "positive", "negative"]), "target": 0.0, "sd_hat": rng.choice([0.25, 0.5, 1.0])}
        return {"cfg": cfg, "events": xs, "drift_positions": []}
    if scenario == "ph_grid":
        xs = [v + rng.choice([1.0, 2.0, 0.0]) for v in _grid_stream(rng, rng.randint(40, 200))]
        cfg = {"det": "ph", "burn_in": rng.choice([0, 2, 8]), "delta": rng.choice([0.0, 0.25, 0.5]), "threshold": rng.choice([1, 2, 4]),
               "direction": rng.choice(["positive", "negative"])}
        return {"cfg": cfg, "events": xs, "drift_positions": []}
    if scenario == "ph":
        xs, drifts = workload.stream_values(rng, n, kind=rng.choice(["gauss", "gauss", "ramp", "heavy", "bern"]), regimes=("offset", "tiny", "lattice"))
        cfg = {"det": "ph", "burn_in": rng.choice([0, 1, 2, 5, 10, 25]), "delta": rng.choice([0.005, 0.1, 0.5]),
               "threshold": rng.choice([0, 1, 3, 8, 20]), "direction": rng.choice(["positive", "negative"])}
    else:
        xs, drifts = workload.stream_values(rng, n, kind=rng.choice(["gauss", "gauss", "ramp", "heavy"]),
                                            drift_rate=rng.choice([0.01, 0.02, 0.04]), regimes=("offset", "tiny", "lattice"))
        cfg = {"det": "cusum", "burn_in": rng.randint(2, 25), "delta": rng.choice([0.005, 0.25, 0.5]),
               "threshold": rng.choice([3, 5, 10, 25]), "direction": rng.choice([None, "positive", "negative"]),
               "target": None, "sd_hat": None}
        if rng.random() < 0.12:
            # CUSUM standardises: rescaling the stream by an exact power of two must not change a single decision
            f = 2.0 ** rng.choice([-40, -30, 30])
            xs = [v * f for v in xs]
        if scenario == "cusum_known":
            cfg["sd_hat"] = rng.choice([0.5, 1.0, 2.0])
            # on target, or off target by a few standard deviations (the statistic then moves inside the burn-in already)
            cfg["target"] = round(sum(xs[:20]) / 20 + rng.choice([0, 0, 1.5, -1.5, 3.0]) * cfg["sd_hat"], 2)
    case = {"cfg": cfg, "events": xs, "drift_positions": drifts}
    if cfg["det"] == "ph":
        case["df_every"] = rng.choice([1, 1, "alarm", "alarm", 7])
    return case


def build(cfg):
    from menelaus.change_detection import CUSUM, PageHinkley

    kw = {k: v for k, v in cfg.items() if k != "det"}
    return (PageHinkley if cfg["det"] == "ph" else CUSUM)(**kw)


def _f(v):
    return float(np.ravel(np.asarray(v, dtype=float))[0])


def run(case, ctx):
    cfg = case["cfg"]
    (run_ph if cfg["det"] == "ph" else run_cusum)(case, ctx)


def run_ph(case, ctx):
    cfg = case["cfg"]
    det = ctx.call("C04:ph:ctor", build, cfg)
    epoch, epoch_no, alarms, prev = [], 0, 0, None
    for t, x in enumerate(case["events"]):
        ctx.step = t
        det = ctx.maybe_fork(det)
        if prev == "drift":
            epoch, epoch_no = [], epoch_no + 1
        epoch.append(x)
        ctx.call("C04:ph:update", det.update, x)
        ctx.sim_time += 1
        rows = ph_rows(epoch, cfg["delta"], cfg["threshold"], cfg["burn_in"], cfg["direction"])
        last = rows[-1]
        scale = max(1.0, max(abs(v) for v in epoch)) * len(epoch)
        got = det.drift_state
        exp = "drift" if last["alarm"] else None
        if got != exp:
            # the running mean is a quotient: Page-Hinkley arithmetic is never exact, so a model-side tie says nothing about the
            # code's side (with threshold 0 the decision hinges on whether the sum is exactly at its extreme): not judged here;
            # strictness of the comparison is checked below on the detector's OWN reported numbers instead
            if last["margin"] <= 1e-9 * scale:
                ctx.near_tie()
            ctx.violation("decision", "C04:ph:decision",
                          f"sample {t} (epoch {epoch_no}, n={len(epoch)}): model {exp!r} (difference {last['page_hinkley_differences']:.6g} vs theta {last['theta_threshold']:.6g}), detector {got!r}; cfg={cfg}")
            raise EndRun()
        if len(epoch) <= cfg["burn_in"] and got is not None:
            ctx.violation("burn_in", "C04:ph:alarm_in_burn_in", f"alarm at n={len(epoch)} <= burn_in; cfg={cfg}")
        # the statistics accessor is read on the run's own schedule: after every update, every few updates, or only when an alarm
        # sounds (a user who dumps the statistics at alarms) - what it reports must be the truth whenever it is asked
        sched = case.get("df_every", 1)
        if not (sched == 1 or (sched == "alarm" and (got == "drift" or t == len(case["events"]) - 1)) or (isinstance(sched, int) and t % sched == 0)):
            ctx.obs(got, round(last["page_hinkley_differences"], 9))
            if exp == "drift":
                alarms += 1
            prev = got
            continue
        df = ctx.call("C04:ph:to_dataframe", det.to_dataframe)
        if len(df) != len(epoch):
            ctx.violation("stats", "C04:ph:stats_len",
                          f"to_dataframe has {len(df)} rows, current epoch has {len(epoch)} observations (sample {t}, epoch {epoch_no})")
            raise EndRun()
        # internal consistency on the detector's own numbers (no model noise involved): the test "exceeds" is strict
        own_diff, own_theta = _f(df["page_hinkley_differences"].iloc[-1]), _f(df["theta_threshold"].iloc[-1])
        own_flag = bool(np.ravel(df["drift_detected"].iloc[-1])[0])
        if own_flag != (own_diff > own_theta) or (got == "drift") != (own_flag and len(epoch) > cfg["burn_in"]):
            ctx.violation("decision", "C04:ph:own_numbers",
                          f"sample {t} (epoch {epoch_no}, n={len(epoch)}): detector reports difference {own_diff!r}, threshold {own_theta!r}, drift_detected={own_flag}, "
                          f"drift_state={got!r}: the documented test is difference > threshold after burn_in {cfg['burn_in']}; cfg={cfg}")
            raise EndRun()
        check_rows = range(len(epoch)) if (exp == "drift" or t == len(case["events"]) - 1 or sched != 1) else [len(epoch) - 1]
        for i in check_rows:
            for col in PH_COLS:
                g = df[col].iloc[i]
                if col == "drift_detected":
                    ok = bool(np.ravel(g)[0]) == rows[i][col] or rows[i]["margin"] <= 1e-9 * scale
                else:
                    ok = close(_f(g), rows[i][col], 1e-9, scale)
                if not ok:
                    ctx.violation("stats", f"C04:ph:stat:{col}",
                                  f"sample {t} epoch {epoch_no} row {i}: to_dataframe()['{col}'] = {np.ravel(g)[0]!r}, recomputed {rows[i][col]!r}; cfg={cfg}")
                    raise EndRun()
        ctx.obs(got, round(last["page_hinkley_differences"], 9))
        ctx.state("ph", cfg["direction"], got, min(epoch_no, 5), len(epoch) <= cfg["burn_in"])
        if exp == "drift":
            alarms += 1
            if len(epoch) == cfg["burn_in"] + 1:
                ctx.probe("alarm_on_first_eligible_sample")
        prev = got
    if alarms >= 3:
        ctx.probe("three_or_more_alarms")
    ctx.nontrivial = alarms >= 2


def run_cusum(case, ctx):
    cfg = case["cfg"]
    # the model knows when the estimation window really has zero variance (it ends the run before the detector can refuse):
    # a "Standard deviation is 0" refusal at any other moment is a violation
    ctx.judge_refusals = True
    det = ctx.call("C04:cusum:ctor", build, cfg)
    b = cfg["burn_in"]
    target, sd = cfg["target"], cfg["sd_hat"]
    known_from = 1 if target is not None else None
    allx, epoch, epoch_no, alarms, prev = [], [], 0, 0, None
    for t, x in enumerate(case["events"]):
        ctx.step = t
        det = ctx.maybe_fork(det)
        if prev == "drift":
            # documented carry-over: re-estimate from the last burn_in observations
            target, sd = float(np.mean(allx[-b:])), float(np.std(allx[-b:]))
            known_from, epoch, epoch_no = 1, [], epoch_no + 1
            if sd == 0:
                raise EndRun()  # documented ValueError territory; not part of the property
        epoch.append(x)
        allx.append(x)
        if known_from is None and len(epoch) == b:
            target, sd, known_from = float(np.mean(epoch)), float(np.std(epoch)), b
            if sd == 0:
                raise EndRun()
        ctx.call("C04:cusum:update", det.update, x)
        ctx.sim_time += 1
        alarm, margin, sh, sl = cusum_step(epoch, target, sd, known_from, b, cfg["delta"], cfg["threshold"], cfg["direction"])
        exp = "drift" if alarm else None
        got = det.drift_state
        if got != exp:
            if 0.0 < margin <= 1e-9 * max(1.0, cfg["threshold"]):   # exact ties are judged ("exceeds" is strict)
                ctx.near_tie()
            ctx.violation("decision", "C04:cusum:decision",
                          f"sample {t} (epoch {epoch_no}, n={len(epoch)}): model {exp!r} (s_h={sh:.6g}, s_l={sl:.6g}, threshold {cfg['threshold']}, target={target}, sd={sd}), detector {got!r}; cfg={cfg}")
            raise EndRun()
        if known_from is not None:
            for name, want in (("target", target), ("sd_hat", sd)):
                have = getattr(det, name, None)
                if have is not None and not close(_f(have), want, 1e-9, max(abs(v) for v in allx)):
                    ctx.violation("constants", f"C04:cusum:{name}",
                                  f"sample {t} epoch {epoch_no}: detector.{name}={_f(have)!r}, documented estimate {want!r}; cfg={cfg}")
                    raise EndRun()
        ctx.obs(got)
        ctx.state("cusum", cfg["direction"], got, min(epoch_no, 5), len(epoch) <= b)
        if alarm:
            alarms += 1
            if len(epoch) == b + 1:
                ctx.probe("alarm_on_first_eligible_sample")
            if epoch_no >= 1:
                ctx.probe("alarm_after_reestimation")
        prev = got
    if alarms >= 3:
        ctx.probe("three_or_more_alarms")
    ctx.nontrivial = alarms >= 2


def truncate(case, step):
    c = dict(case)
    c["events"] = case["events"][: step + 1]
    return c


def fix(case):
    # CUSUM needs a non-degenerate estimation window: keep at least burn_in + 1 events
    if case["cfg"]["det"] == "cusum" and len(case["events"]) <= case["cfg"]["burn_in"]:
        return None
    return case


def shrink(case):
    ev = case["events"]
    for nd in (1, 0):
        r = [round(v, nd) for v in ev]
        if r != ev:
            c = dict(case)
            c["events"] = r
            yield c
    cfg = case["cfg"]
    if cfg["burn_in"] > 2:
        for v in sorted({2, cfg["burn_in"] // 2, cfg["burn_in"] - 1}):
            if 2 <= v < cfg["burn_in"]:
                c = dict(case)
                c["cfg"] = dict(cfg, burn_in=v)
                yield c


def summarize(case):
    return {"scenario": case["scenario"], "cfg": case["cfg"], "n_events": len(case["events"]),
            "first_values": case["events"][:12], "environment_drift_positions": case.get("drift_positions", [])[:10]}
