"""C03 - ADWIN keeps exact statistics of its adaptive window and cuts it by its rule.

Degenerate simulation target (deterministic sequential state machine).  Reference model: raw inputs +
window width + size-only bucket layout (sim/models/adwin.py).  The implementation's bucket list is
never read.  ADWINAccuracy is compared with ADWIN(**same kwargs) on the indicator stream.
"""
import numpy as np

from sim import workload
from sim.core import EndRun, close
from sim.models.adwin import AdwinModel

PROP = "C03"
FORKS = True      # snapshot / restore events (core.Ctx.maybe_fork)
LEVEL = "exploration"
RULE = (
    "seeded real-valued / 0-1 / ramp / heavy-tailed streams (50-450 samples, level and variance shifts) x delta in "
    "{1e-4..1} x max_buckets 1-6 x check period 1-16 x window / sub-window thresholds x both bounds; after every "
    "update mean(), variance(), the drift decision and retraining_recs are compared with a model holding the raw "
    "window and a size-only bucket layout; ADWINAccuracy vs ADWIN(**same kwargs) on 1{y_true==y_pred}. "
    "Non-trivial run: >=1 window cut; distinct = distinct trace digests."
)
STATE_MEASURE = "distinct (max_buckets, number of bucket rows, buckets dropped in this update capped at 4, drift flag) tuples"
WHITE_BOX = []
KW = ["delta", "max_buckets", "new_sample_thresh", "window_size_thresh", "subwindow_size_thresh", "conservative_bound"]


def scenarios(tier):
    k = 1 if tier == "quick" else 10
    # "marathon": one instance fed 4300-5200 samples (anything periodic in the number of updates, a counter crossing 2**12, drift of
    # the running sums only shows there), a level shift near the end
    return [("adwin", 2000 * k), ("adwin_m1", 600 * k), ("accuracy", 700 * k), ("marathon", 4 if tier == "quick" else 16)]


HEAVY = ["marathon"]


def _cfg(rng, scenario):
    cfg = {
        "delta": rng.choice([0.002, 0.05, 0.3, 1.0, 1e-4]),
        "max_buckets": 1 if scenario == "adwin_m1" else rng.randint(1, 6),
        "new_sample_thresh": rng.choice([1, 2, 3, 4, 8, 16]),
        "window_size_thresh": rng.randint(0, 12),
        "subwindow_size_thresh": rng.randint(1, 6),
        # also as 0 / 1 (ints): any falsy value selects the normal-approximation bound
        "conservative_bound": rng.choice([False, False, False, True, 0, 1]),
    }
    return cfg


def gen(rng, scenario, tier):
    cfg = _cfg(rng, scenario)
    if scenario == "marathon":
        cfg.update(delta=rng.choice([0.002, 1e-4]), new_sample_thresh=rng.choice([16, 32]), max_buckets=rng.randint(3, 6))
        n = rng.randint(4300, 5200)
        kind = rng.choice(["gauss", "bern"])
        cfg["conservative_bound"] = cfg["conservative_bound"] if kind == "bern" else False    # (the Hoeffding bound presumes data in [0, 1])
        ev, drifts = workload.stream_values(rng, n, kind=kind, drift_rate=0.0)
        n0 = n - rng.randint(150, 400)
        step = (max(ev) - min(ev)) * 0.75 or 1.0
        ev = ev[:n0] + [round(v + step, 4) for v in ev[n0:]]
        return {"cfg": cfg, "events": ev, "drift_positions": [n0]}
    if scenario == "accuracy" and rng.random() < 0.35:
        # falsy-but-legal settings (twin comparison only): no minimum window / sub-window size
        cfg["window_size_thresh"] = 0
        cfg["subwindow_size_thresh"] = rng.choice([0, 0, 1])
        cfg["new_sample_thresh"] = rng.choice([1, 2])
        cfg["max_buckets"] = rng.randint(2, 5)
    n = rng.randint(50, 450)
    if scenario == "accuracy":
        ev, drifts = workload.outcomes(rng, n)
        # both classes built from the same POSITIONAL argument tuple in one run in four (the documented order of ADWIN's parameters)
        return {"cfg": cfg, "events": ev, "drift_positions": drifts, "positional": rng.random() < 0.25}
    ev, drifts = workload.stream_values(rng, n, regimes=("tiny", "lattice"))
    case = {"cfg": cfg, "events": ev, "drift_positions": drifts}
    # mean() / variance() are read after every update, every few updates, or only when a drift is reported
    case["acc_every"] = rng.choice([1, 1, 1, 5, "drift"])
    if rng.random() < 0.12:
        # small whole numbers delivered in a narrow dtype (sensor counts as uint8 / int8, single-precision readings)
        lo, hi = min(ev), max(ev)
        span = (hi - lo) or 1.0
        case["events"] = [float(round(100.0 * (v - lo) / span)) for v in ev]
        case["dtype"] = rng.choice(["uint8", "int8", "int16", "float32"])
    return case


def run(case, ctx):
    if case["scenario"] == "accuracy":
        return run_accuracy(case, ctx)
    from menelaus.change_detection import ADWIN

    cfg = case["cfg"]
    det = ctx.call("C03:adwin:ctor", ADWIN, **cfg)
    m = AdwinModel(*[cfg[k] for k in KW])
    cuts = 0
    prev_drift = False
    for t, x in enumerate(case["events"], 1):
        ctx.step = t - 1
        det = ctx.maybe_fork(det)
        w_before = m.W
        if case.get("dtype"):
            ctx.call("C03:adwin:update", det.update, np.array([x], dtype=case["dtype"]))
        else:
            ctx.call("C03:adwin:update", det.update, x)
        ctx.sim_time += 1
        drift, tie, dropped = m.update(x, t)
        got_drift = det.drift_state == "drift"
        if det.drift_state not in (None, "drift"):
            ctx.violation("state", "C03:adwin:state_value", f"drift_state={det.drift_state!r}")
        w = m.window()
        mean, var = float(w.mean()), float(w.var())
        scale = max(1.0, float(np.max(np.abs(w))))
        sched = case.get("acc_every", 1)
        read_now = sched == 1 or (sched == "drift" and (got_drift or t == len(case["events"]))) or (isinstance(sched, int) and t % sched == 0)
        stats_ok = (not read_now) or (close(det.mean(), mean, 1e-8, scale) and close(det.variance(), var, 1e-7, scale * scale))
        if got_drift != drift or (not stats_ok and tie):
            if tie:
                ctx.near_tie()
            ctx.violation("decision", "C03:adwin:decision",
                          f"update {t}: model drift={drift} (dropped {dropped} buckets, W {w_before + 1}->{m.W}), detector drift_state={det.drift_state!r}; cfg={cfg}")
            raise EndRun()
        if not stats_ok:
            ctx.violation("stats", "C03:adwin:stats",
                          f"update {t}: mean()={det.mean()!r} variance()={det.variance()!r} but the {m.W} most recent inputs have mean {mean!r} variance {var!r}; drift={drift}; cfg={cfg}")
            raise EndRun()
        recs = det.retraining_recs
        exp_recs = [t - m.W, t - 1] if drift else [None, None]
        if [None if v is None else int(v) for v in recs] != exp_recs:
            ctx.violation("recs", "C03:adwin:recs", f"update {t}: retraining_recs={list(recs)}, expected {exp_recs}; cfg={cfg}")
            raise EndRun()
        if drift:
            cuts += 1
            if cfg["max_buckets"] == 1:
                ctx.probe("shrink_with_max_buckets_1")
            if dropped >= 2:
                ctx.probe("two_or_more_buckets_dropped_in_one_update")
            if m.W < 2 * cfg["subwindow_size_thresh"]:
                ctx.probe("shrink_leaving_W_below_2_subwindows")
            if prev_drift:
                ctx.probe("drift_in_consecutive_updates")
        prev_drift = drift
        ctx.obs(det.drift_state, round(mean, 9), m.W)
        ctx.state(cfg["max_buckets"], len(m.rows), min(dropped, 4), drift)
    if m.max_cascade >= 3:
        ctx.probe("row_cascade_depth_3_or_more")
    ctx.nontrivial = cuts >= 1


def run_accuracy(case, ctx):
    from menelaus.change_detection import ADWIN
    from menelaus.concept_drift import ADWINAccuracy

    cfg = case["cfg"]
    if case.get("positional"):
        args = [cfg[k] for k in KW]
        det = ctx.call("C03:adwinacc:ctor", ADWINAccuracy, *args)
        twin = ADWIN(*args)
    else:
        det = ctx.call("C03:adwinacc:ctor", ADWINAccuracy, **cfg)
        twin = ADWIN(**cfg)
    cuts = 0
    for t, (yt, yp) in enumerate(case["events"], 1):
        ctx.step = t - 1
        det = ctx.maybe_fork(det)
        ctx.call("C03:adwinacc:update", det.update, yt, yp)
        twin.update(float(yt == yp))
        ctx.sim_time += 1
        a = (det.drift_state, list(det.retraining_recs), det.total_samples, det.samples_since_reset)
        b = (twin.drift_state, list(twin.retraining_recs), twin.total_samples, twin.samples_since_reset)
        if a != b or not close(det.mean(), twin.mean(), 1e-12) or not close(det.variance(), twin.variance(), 1e-12):
            ctx.violation("twin", "C03:adwinacc:differs_from_adwin",
                          f"update {t}: ADWINAccuracy {a} mean={det.mean()!r} var={det.variance()!r} vs ADWIN on indicators {b} mean={twin.mean()!r} var={twin.variance()!r}; cfg={cfg}")
            raise EndRun()
        cuts += twin.drift_state == "drift"
        ctx.obs(a)
        ctx.state("acc", twin.drift_state)
    ctx.nontrivial = cuts >= 1


def truncate(case, step):
    c = dict(case)
    c["events"] = case["events"][: step + 1]
    return c


def shrink(case):
    if case["scenario"] == "accuracy":
        return
    ev = case["events"]
    for nd in (2, 1, 0):
        r = [round(v, nd) for v in ev]
        if r != ev:
            c = dict(case)
            c["events"] = r
            yield c
    cfg = case["cfg"]
    for k, lo in (("window_size_thresh", 0), ("subwindow_size_thresh", 1), ("new_sample_thresh", 1)):
        if cfg[k] > lo:
            c = dict(case)
            c["cfg"] = dict(cfg, **{k: lo})
            yield c


def summarize(case):
    return {"scenario": case["scenario"], "cfg": case["cfg"], "n_events": len(case["events"]),
            "first_events": case["events"][:10], "environment_drift_positions": case.get("drift_positions", [])[:10]}
