"""C12 - an ensemble is its election applied to members that run exactly as if alone.

Multi-party simulation: the ensemble is the coordinator, 2-5 heterogeneous *real* detectors are the
nodes.  Each member inside the ensemble is wrapped by a thin proxy that installs the simulator's
numpy seed for (step, member) before delegating; an identically configured twin of each member is
updated alone with the selected columns under the same seed.  Members alarm at different times
(different warm-ups), some auto-restart while others wait, ConfirmedElection timers span several
updates; explicit reset / set_reference events fan out.
"""
import numpy as np
import pandas as pd

from sim import adapters, workload
from sim.core import EndRun, canon, derive, np_seed
from sim.models import election as M

PROP = "C12"
FORKS = True      # snapshot / restore events (core.Ctx.maybe_fork)
LEVEL = "exploration"
RULE = (
    "StreamingEnsemble / BatchEnsemble over 2-5 real members drawn from {ADWIN, PageHinkley, CUSUM, DDM, EDDM, STEPD, "
    "LinearFourRates, KdqTreeStreaming, PCACD} / {HDDDM, CDBD, KdqTreeBatch, NNDVI} x all four elections x seeded column "
    "selectors (single column, subsets, reorderings, none) x ndarray or DataFrame input x explicit reset / "
    "set_reference events; after every call each member's full observation is compared with its twin run alone, the "
    "ensemble's drift_states / retraining_recs with the members' values in insertion order, its verdict with the "
    "election model, its counters with the number of updates. Non-trivial run: >=2 members alarmed at different steps; "
    "distinct = distinct digests."
)
STATE_MEASURE = "distinct (election kind, tuple of member states, ensemble verdict) tuples"
WHITE_BOX = ["ConfirmedElection.wait_period_counters", "private running statistics of members (twin comparison only)"]
STUBS = ["reseeding proxy around each member (delegates every attribute)"]
COLS = ["a", "b", "c"]
S_UNI = ["ADWIN", "PageHinkley", "CUSUM"]
S_Y = ["DDM", "EDDM", "STEPD", "LinearFourRates"]
S_MULTI = ["KdqTreeStreaming", "PCACD"]
B_ALL = ["HDDDM", "CDBD", "KdqTreeBatch", "NNDVI"]


def _user_det_class():
    """A detector written by a user of the library: a level alarm on its single column, with its recommendation kept as a
    plain instance attribute (ensembles take any object that follows the detector interface)."""
    from menelaus.detector import StreamingDetector

    class UserDet(StreamingDetector):
        def __init__(self, level=2.0):
            super().__init__()
            self.level = level
            self.retraining_recs = [None, None]

        def update(self, X, y_true=None, y_pred=None):
            if self.drift_state == "drift":
                self.reset()
            X, _, _ = super()._validate_input(X, None, None)
            super().update(X, None, None)
            v = float(np.ravel(X)[0])
            self.drift_state = "drift" if abs(v) > self.level else ("warning" if abs(v) > 0.7 * self.level else None)
            self.retraining_recs = [self.total_samples - 1, self.total_samples - 1] if self.drift_state == "drift" else [None, None]

        def reset(self):
            super().reset()
            self.retraining_recs = [None, None]

    return UserDet


def _build(name, cfg, retype=None):
    if name == "UserDet":
        return _user_det_class()(**cfg)
    return adapters.build(name, cfg, retype)


class Seeded:
    """Member proxy: installs the numpy seed of (current step, member) before every call that may draw."""

    def __init__(self, inner, key, clock):
        object.__setattr__(self, "_i", inner)
        object.__setattr__(self, "_k", key)
        object.__setattr__(self, "_c", clock)

    def _seed(self):
        np.random.seed(derive(self._c[0], self._k) % (2**32 - 1))

    def __deepcopy__(self, memo):
        import copy

        return Seeded(copy.deepcopy(self._i, memo), self._k, self._c)     # (the simulator's clock is not part of the snapshot)

    def update(self, *a, **k):
        self._seed()
        return self._i.update(*a, **k)

    def set_reference(self, *a, **k):
        self._seed()
        return self._i.set_reference(*a, **k)

    def __getattr__(self, n):
        return getattr(self._i, n)

    def __setattr__(self, n, v):
        setattr(self._i, n, v)


def scenarios(tier):
    k = 1 if tier == "quick" else 10
    return [("stream", 320 * k), ("batch", 130 * k)]


def gen(rng, scenario, tier):
    W = 3
    if scenario == "stream":
        pool = S_UNI + S_Y + ["KdqTreeStreaming"] + (["PCACD"] if rng.random() < 0.25 else [])
        names = rng.sample(pool, rng.randint(2, min(5, len(pool))))
        if rng.random() < 0.35:
            names.append(rng.choice(names))     # the same class twice (other knobs / columns): instances must not share state
        if rng.random() < 0.12 and "PCACD" not in names:
            names += ["PCACD", "PCACD"]
        if rng.random() < 0.2:
            names.append("UserDet")         # a member class written by the user
    else:
        names = [rng.choice(B_ALL) for _ in range(rng.randint(2, 4))]
    members, sel = [], {}
    for j, nme in enumerate(names):
        key = f"{nme}_{j}"
        cfg = adapters.sample_cfg(rng, nme) if nme != "UserDet" else {"level": rng.choice([1.5, 3.0, 6.0])}
        if nme == "PCACD":
            cfg["window_size"] = 20
        members.append([key, nme, cfg])
        if nme in S_UNI or nme in ("CDBD", "UserDet"):
            sel[key] = [rng.randrange(W)]
        elif nme in S_MULTI or nme in B_ALL:
            c = rng.random()
            if nme == "PCACD":
                sel[key] = sorted(rng.sample(range(W), 2)) if c < 0.4 else None
            elif c < 0.4:
                sel[key] = rng.sample(range(W), rng.randint(1, W))  # subset, possibly reordered
            elif c < 0.6:
                sel[key] = [rng.randrange(W)]
            else:
                sel[key] = None
        else:
            sel[key] = None if rng.random() < 0.7 else [rng.randrange(W)]
    n = len(names)
    ek = rng.choice(["maj", "min", "ord", "conf"])
    election = {"kind": ek, "a": rng.randint(1, n), "c": rng.randint(0, 2), "sens": rng.randint(1, n), "wait": rng.randint(0, 3)}
    container = rng.choice(["nd", "nd", "df"])
    ev = []
    if scenario == "stream":
        T = rng.randint(60, 220)
        if "PCACD" in names:
            T = rng.randint(100, 220)
        rows, drifts = workload.mv_stream(rng, T, W, drift_rate=rng.choice([0.02, 0.04]))
        ys, _ = workload.outcomes(rng, T)
        for r, y in zip(rows, ys):
            if rng.random() < 0.01:
                ev.append(["r"])
            if rng.random() < 0.01:
                ev.append(["swap", rng.randrange(len(names))])     # the user replaces a member by a fresh detector (e.g. after retraining)
            if rng.random() < 0.015 and any(e[0] == "u" for e in ev):       # (a width is only wrong once one is established)
                ev.append(["bad", rng.choice(["rows2", "width+1"]), np_seed(rng)])   # malformed call to the ensemble
            ev.append(["u", r, y, np_seed(rng)])
    else:
        nb = rng.randint(6, 16)
        bs, drifts = workload.batches(rng, nb + 1, W, 10, 30, drift_rate=rng.choice([0.3, 0.5]))
        ev.append(["ref", bs[0], np_seed(rng)])
        for b in bs[1:]:
            c = rng.random()
            if c < 0.05:
                ev.append(["r"])
            if rng.random() < 0.08:
                ev.append(["bad", rng.choice(["rows1", "width+1"]), np_seed(rng)])
            if c > 0.93:
                ev.append(["ref", b, np_seed(rng)])
            else:
                ev.append(["u", b, np_seed(rng)])
    int_ids = rng.random() < 0.2      # the members are registered under integer ids 0, 1, 2, ... (selectors keyed alike)
    return {"int_ids": int_ids, "members": members, "selectors": sel, "election": election, "container": container, "events": ev,
            "drift_positions": drifts}


def _selector(cols, container):
    if cols is None:
        return None
    if container == "df":
        names = [COLS[c] for c in cols]
        return lambda X, names=names: X[names]
    return lambda X, cols=cols: X[:, cols]


def _make_election(e):
    from menelaus.ensemble import (ConfirmedElection, MinimumApprovalElection, OrderedApprovalElection,
                                   SimpleMajorityElection)

    return {"maj": lambda: SimpleMajorityElection(), "min": lambda: MinimumApprovalElection(e["a"]),
            "ord": lambda: OrderedApprovalElection(e["a"], e["c"]),
            "conf": lambda: ConfirmedElection(e["sens"], e["wait"])}[e["kind"]]()


def _model_election(e, states, st):
    if e["kind"] == "maj":
        return M.simple_majority(states)
    if e["kind"] == "min":
        return M.minimum_approval(states, e["a"])
    if e["kind"] == "ord":
        return M.ordered_approval(states, e["a"], e["c"])
    verdict, st["c"] = M.confirmed(st.setdefault("c", [0] * len(states)), states, e["sens"], e["wait"])
    return verdict


def _wrap(X, container):
    arr = np.array(X, dtype=float)
    if arr.ndim == 1:
        arr = arr.reshape(1, -1)
    return pd.DataFrame(arr, columns=COLS[: arr.shape[1]]) if container == "df" else arr


def run(case, ctx):
    from menelaus.ensemble import BatchEnsemble, StreamingEnsemble

    stream = case["scenario"] == "stream"
    container = case["container"]
    clock = [0]
    keys = [m[0] for m in case["members"]]
    real = {k: _build(n, cfg, case.get("retype")) for k, n, cfg in case["members"]}   # (the twins get the plain types)
    twins = {k: _build(n, cfg) for k, n, cfg in case["members"]}
    members = {k: Seeded(real[k], k, clock) for k in keys}
    sels = {k: _selector(case["selectors"].get(k), container) for k in keys}
    ids = {k: (j if case.get("int_ids") else k) for j, k in enumerate(keys)}
    given = {ids[k]: f for k, f in sels.items() if f is not None}
    members = {ids[k]: m for k, m in members.items()}
    if given:
        ens = ctx.call("C12:ctor", (StreamingEnsemble if stream else BatchEnsemble), members, _make_election(case["election"]), given)
        given.clear()       # the caller re-uses the dict it passed for something else: the ensemble must have taken what it needs
        members = None
    else:   # no member needs a selector: the ensemble is built the short way
        ens = ctx.call("C12:ctor", (StreamingEnsemble if stream else BatchEnsemble), members, _make_election(case["election"]))
        ctx.probe("ensemble_built_without_selectors")
    est = {}
    fresh_member = False
    n_updates = 0
    since = 0
    first_alarm = {}
    for i, ev in enumerate(case["events"]):
        ctx.step = i
        restored = ctx.maybe_fork(ens)          # the coordinator and all its members are snapshotted and restored together
        if restored is not ens:
            ens = restored
            for k in keys:
                real[k] = ens.detectors[ids[k]]._i
        clock[0] = ev[-1] if ev[0] not in ("r", "swap") else 0
        if ev[0] == "swap":
            key, nme, mcfg = case["members"][ev[1] % len(case["members"])]
            real[key] = _build(nme, mcfg)
            twins[key] = _build(nme, mcfg)
            ens.detectors[ids[key]] = Seeded(real[key], key, clock)      # the public dict of members is the ensemble's membership
            ctx.fault("member_replaced_by_fresh_detector")
            fresh_member = True
            if stream is False:
                raise EndRun()   # (a fresh batch member has no reference yet)
            continue
        if ev[0] == "r":
            ctx.call("C12:reset", ens.reset)
            ctx.fault("explicit_reset")
            for k in keys:
                twins[k].reset()
            since = 0
            if ens.drift_state is not None:
                ctx.violation("reset", "C12:reset:ensemble_state", f"ensemble drift_state {ens.drift_state!r} after reset()")
        elif ev[0] == "bad" and fresh_member:
            continue     # a fresh member has no established width yet: for it the call is not malformed
        elif ev[0] == "bad":
            kind = ev[1]
            rows = {"rows2": 2, "rows1": 1}.get(kind, 1 if stream else 6)
            width = 4 if kind == "width+1" else 3
            raw = (np.arange(rows * width, dtype=float).reshape(rows, width) * 0.125 + 0.25).tolist()

            def mk():
                a = np.array(raw, dtype=float)
                return pd.DataFrame(a, columns=(COLS + ["zz"])[:width]) if container == "df" else a

            ya = (1, 1) if stream else (None, None)
            try:
                if stream:
                    ens.update(mk(), ya[0], ya[1])
                else:
                    ens.update(mk())
                raised = None
            except ValueError:
                raised = "ValueError"
            except Exception as e:  # noqa: BLE001
                raised = type(e).__name__
            ctx.fault("malformed_call_to_ensemble:" + kind)
            # members run as if alone, in insertion order, until the first one refuses the call
            expect = None
            for k in keys:
                np.random.seed(derive(clock[0], k) % (2**32 - 1))
                try:
                    Xs = sels[k](mk()) if sels[k] else mk()
                    twins[k].update(X=Xs, y_true=ya[0], y_pred=ya[1])
                except ValueError:
                    expect = "ValueError"
                    break
                except Exception:  # noqa: BLE001 (e.g. a selector that cannot index the malformed frame)
                    expect = "other"
                    break
            if expect == "other" or (raised not in (None, "ValueError")):
                raise EndRun()      # the selector itself (user code) failed on the malformed input: nothing to judge
            if raised != expect:
                ctx.violation("bad_call", "C12:malformed_call",
                              f"event {i}: malformed {kind} call: ensemble {'accepted it' if raised is None else 'raised ' + raised}, members run alone {'accept it' if expect is None else 'refuse it'}")
                raise EndRun()
            if raised is None:
                n_updates += 1
                since += 1
                ctx.sim_time += 1
                ev = ["u"]           # accepted: the election ran, check the verdict below
        elif ev[0] == "ref":
            X = _wrap(ev[1], container)
            ctx.call("C12:set_reference", ens.set_reference, X)
            if i > 0:
                ctx.fault("explicit_set_reference")
            for k in keys:
                np.random.seed(derive(clock[0], k) % (2**32 - 1))
                Xs = sels[k](_wrap(ev[1], container)) if sels[k] else _wrap(ev[1], container)
                twins[k].set_reference(Xs)
        else:
            X = _wrap(ev[1], container)
            if stream:
                yt, yp = ev[2]
                ctx.call("C12:update", ens.update, X, yt, yp)
            else:
                yt = yp = None
                ctx.call("C12:update", ens.update, X)
            ctx.sim_time += 1
            n_updates += 1
            since += 1
            fresh_member = False
            for k in keys:
                np.random.seed(derive(clock[0], k) % (2**32 - 1))
                X2 = _wrap(ev[1], container)
                Xs = sels[k](X2) if sels[k] else X2
                twins[k].update(X=Xs, y_true=yt, y_pred=yp)
        # ---- oracle
        for k in keys:
            oM, oT = adapters.observe(real[k]), adapters.observe(twins[k])
            if not ctx.same_obs(oM, oT):
                key = next(x for x in oT if not ctx.same_obs(oM.get(x), oT[x]))
                ctx.violation("member", f"C12:member:{type(real[k]).__name__}:{key}",
                              f"event {i} ({ev[0]}): member {k} inside the ensemble reports {key}={str(oM.get(key))[:120]} but the same detector "
                              f"run alone on its selected columns reports {str(oT[key])[:120]}; selector={case['selectors'].get(k)} container={container}")
                raise EndRun()
        states = [real[k].drift_state for k in keys]
        ds = ctx.call("C12:drift_states", lambda: ens.drift_states)
        if list(ds.items()) != list(zip([ids[k] for k in keys], states)):
            ctx.violation("drift_states", "C12:drift_states", f"event {i}: ensemble.drift_states={ds}, members {list(zip([ids[k] for k in keys], states))}")
            raise EndRun()
        rr = ctx.call("C12:retraining_recs", lambda: ens.retraining_recs)
        exp_rr = [(ids[k], adapters._num(real[k].retraining_recs)) for k in keys if hasattr(real[k], "retraining_recs")]
        if [(k, adapters._num(v)) for k, v in rr.items()] != exp_rr:
            ctx.violation("retraining_recs", "C12:retraining_recs", f"event {i}: ensemble.retraining_recs={rr}, members {exp_rr}")
            raise EndRun()
        if ev[0] == "u":
            exp = _model_election(case["election"], states, est)
            if ens.drift_state != exp:
                ctx.violation("verdict", f"C12:verdict:{case['election']['kind']}",
                              f"event {i}: member states {states}, election {case['election']} -> ensemble.drift_state={ens.drift_state!r}, voting rule {exp!r}")
                raise EndRun()
            for k, s in zip(keys, states):
                if s == "drift" and k not in first_alarm:
                    first_alarm[k] = i
        tot, sr = adapters.counters(ens)
        if tot != n_updates or sr != since:
            ctx.violation("counters", "C12:ensemble_counters", f"event {i}: ensemble counters ({tot}, {sr}), expected ({n_updates}, {since})")
            raise EndRun()
        ctx.obs(states, ens.drift_state)
        ctx.state(case["election"]["kind"], tuple(states), ens.drift_state)
    if len(set(first_alarm.values())) >= 2:
        ctx.probe("members_alarmed_at_different_steps")
        ctx.nontrivial = True
    eps = [adapters.counters(real[k])[1] for k in keys]
    if len(set(eps)) > 1:
        ctx.probe("members_in_different_epochs_at_end")


def truncate(case, step):
    c = dict(case)
    c["events"] = case["events"][: step + 1]
    return c


def fix(case):
    ev = case["events"]
    if case["scenario"] == "batch" and (not ev or ev[0][0] != "ref"):
        return None
    first_u = next((i for i, e in enumerate(ev) if e[0] == "u"), len(ev))
    if any(e[0] == "bad" for e in ev[:first_u]) and case["scenario"] == "stream":
        return None     # a "wrong width" exists only after an accepted input
    return case


def summarize(case):
    return {"scenario": case["scenario"], "members": [[m[0], m[2]] for m in case["members"]], "selectors": case["selectors"],
            "election": case["election"], "container": case["container"],
            "ops": "".join({"u": "u", "r": "R", "ref": "S", "bad": "!", "swap": "x"}[e[0]] for e in case["events"][:80])}
