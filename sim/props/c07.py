"""C07 - HDDDM / CDBD alarm exactly when the distance change exceeds the adaptive bound.

Refinement against a non-incremental, epoch-relative model (sim/models/hdm.py) over seeded batch
histories with drift batches, explicit set_reference at seeded instants and batches identical to the
current reference.  RNG only enters through the bootstrap estimate of the first epsilon: that value is an
input of the model (read from the detector's public `epsilon` list) and is validated separately from the
subsets recorded at the DataFrame.sample seam.
"""
import math

import numpy as np
import pandas as pd

from sim import seams, workload
from sim.core import EndRun, canon, close, np_seed
from sim.models import hdm as H

PROP = "C07"
FORKS = True      # snapshot / restore events (core.Ctx.maybe_fork)
LEVEL = "exploration"
RULE = (
    "HDDDM / CDBD x divergence (Hellinger, Jensen-Shannon, user function) x detect_batch 1-3 x statistic x significance x subsets "
    "x 1-3 features x seeded histories of 5-22 batches (8-60 rows, varying sizes, drift batches, explicit set_reference, batches "
    "identical to the current reference); after every call distance, epsilon, threshold, decision, since-reset counter, "
    "reference contents / size and feature_info are compared with the model; bootstrap subsets recorded at the "
    "DataFrame.sample seam. Non-trivial: >=2 drifts; distinct = digests."
)
STATE_MEASURE = "distinct (class, detect_batch, statistic, epoch batch index capped at 5, decision) tuples"
WHITE_BOX = []
BOUND = {"H": math.sqrt(2), "KL": math.sqrt(math.log(2))}


def scenarios(tier):
    k = 1 if tier == "quick" else 10
    return [("hdddm", 1000 * k), ("cdbd", 600 * k)]


def gen(rng, scenario, tier):
    cls = "HDDDM" if scenario == "hdddm" else "CDBD"
    st = rng.choice(["tstat", "stdev"])
    cfg = {"cls": cls, "detect_batch": rng.choice([1, 2, 3]), "statistic": st,
           "significance": rng.choice([0.05, 0.2, 0.5]) if st == "tstat" else rng.choice([0.5, 1.0, 2.0]),
           "subsets": rng.randint(2, 5), "divergence": rng.choice(["H", "KL", "TV", "AKL"])}
    if st == "tstat" and rng.random() < 0.08:
        cfg["significance"] = 0.0      # legal extreme: an infinite t quantile
    d = 1 if cls == "CDBD" else rng.randint(1, 3)
    bs, drifts = workload.batches(rng, rng.randint(6, 23), d, 8, 60, drift_rate=rng.choice([0.15, 0.3]),
                                  nd=rng.choice([3, 4]), integer=rng.random() < 0.1, regimes=("offset", "tiny", "lattice"))
    if rng.random() < 0.1:
        # one feature sits on a huge offset (its spread is tiny relative to its magnitude, but it is not constant)
        off = rng.choice([1e6, -1e6, 1e8])
        bs = [[[row[0] + off] + row[1:] for row in b] for b in bs]
    ev = [["ref", bs[0], np_seed(rng)]]
    int_ref = rng.random() < 0.15
    if int_ref:
        ev[0][1] = [[float(round(v)) for v in row] for row in bs[0]]
    for b in bs[1:]:
        c = rng.random()
        if c < 0.07:
            ev.append(["ref", b, np_seed(rng)])
        elif c < 0.14:
            ev.append(["same", None, np_seed(rng)])
        elif c < 0.2:
            # the user corrects some interior values of the history collected so far and re-baselines on it: set_reference with
            # as many rows as the accumulated reference has, the same per-feature range, other contents
            ev.append(["refcorr", None, np_seed(rng)])
        else:
            ev.append(["u", b, np_seed(rng)])
    # one history in five arrives as DataFrames: with distinct column labels, or (several features) with a label used twice - as
    # after pd.concat([s1, s2], axis=1) of equally named Series; features are columns by position, whatever they are called
    frames = rng.choice([None, None, None, None, "unique", "dup" if d > 1 else "unique"])
    return {"cfg": cfg, "events": ev, "drift_positions": drifts, "int_ref": int_ref and frames is None, "frames": frames}


def build(cfg):
    import menelaus.data_drift as dd

    kw = {k: v for k, v in cfg.items() if k != "cls"}
    if kw["divergence"] == "TV":
        kw["divergence"] = H.total_variation
    if kw["divergence"] == "AKL":
        kw["divergence"] = H.smoothed_kl
    return getattr(dd, cfg["cls"])(**kw)


class SampleRecorder:
    def __init__(self):
        self.log = []
        self.orig = pd.DataFrame.sample

    def __enter__(self):
        rec = self

        def sample(frame, *a, **k):
            out = rec.orig(frame, *a, **k)
            if seams.PAUSED[0]:
                return out
            rec.log.append({"n": k.get("n", a[0] if a else None), "replace": k.get("replace", False),
                            "frame": frame.to_numpy(copy=True), "rows": out.to_numpy(copy=True)})
            return out

        pd.DataFrame.sample = sample
        return self

    def __exit__(self, *exc):
        pd.DataFrame.sample = self.orig


def run(case, ctx):
    with SampleRecorder() as rec:
        _run(case, ctx, rec)


def _fail(ctx, kind, sig, msg, cfg):
    ctx.violation(kind, f"C07:{sig}", f"{msg}; cfg={cfg}")
    raise EndRun()


def _run(case, ctx, rec):
    cfg = case["cfg"]
    db = cfg["detect_batch"]
    det = ctx.call("C07:ctor", build, cfg)
    spec = H.Spec(cfg["divergence"], db, cfg["statistic"], cfg["significance"])
    prev_drift = False
    drifted_batch = None
    drifts = 0
    epoch_by = "set_reference"
    handed_out = []     # (what, object, deep copy at the time): reports the user has been given must not change afterwards

    def wrap(arr):
        if not case.get("frames"):
            return arr
        labels = [f"f{j}" for j in range(arr.shape[1])] if case["frames"] == "unique" else (["f", "f", "g", "h"][: arr.shape[1]])
        return pd.DataFrame(arr, columns=labels)

    if case.get("frames"):
        ctx.fault("batches_as_dataframes_" + case["frames"] + "_labels")
    for i, (op, rows, seed) in enumerate(case["events"]):
        ctx.step = i
        det = ctx.maybe_fork(det)
        if op == "refcorr":
            if prev_drift:
                spec.start_epoch(drifted_batch)
                prev_drift = False
            X = np.array(spec.ref, dtype=float).copy()
            for j in range(X.shape[1]):
                lo, hi = X[:, j].min(), X[:, j].max()
                keep = {int(np.argmin(X[:, j])), int(np.argmax(X[:, j]))}
                for r_ in range(1, len(X), 3):
                    if r_ not in keep:
                        X[r_, j] = lo + (hi - lo) * (((r_ * 7 + j * 3) % 11) + 1) / 13.0
            rows, op = X.tolist(), "ref"
            ctx.fault("set_reference_on_corrected_history")
        if op == "ref":
            X = np.array(rows, dtype=float)
            np.random.seed(seed)
            # an integer-valued reference may arrive as an integer-typed array (the batches that follow are real-valued)
            given = X.astype("int64") if (case.get("int_ref") and i == 0) else X.copy()
            ctx.call("C07:set_reference", det.set_reference, wrap(given))
            if case.get("int_ref") and i == 0:
                ctx.probe("integer_typed_reference")
            if i > 0:
                ctx.fault("explicit_set_reference")
            spec.start_epoch(X)
            prev_drift, epoch_by = False, "set_reference"
            if det.drift_state is not None:
                _fail(ctx, "state", "state_after_set_reference", f"call {i}: drift_state {det.drift_state!r} right after set_reference", cfg)
            if det.batches_since_reset != spec.j or det.reference_n != len(spec.ref):
                _fail(ctx, "reference", "after_set_reference",
                      f"call {i}: after set_reference batches_since_reset={det.batches_since_reset} reference_n={det.reference_n}; model {spec.j}, {len(spec.ref)}", cfg)
            continue
        if prev_drift:
            spec.start_epoch(drifted_batch)
            epoch_by = "drift"
        X = np.array(spec.ref if op == "same" else rows, dtype=float)
        if op == "same":
            ctx.fault("batch_identical_to_reference")
        ref_before = spec.ref.copy()
        del rec.log[:]
        np.random.seed(seed)
        ctx.call("C07:update", det.update, wrap(X.copy()))
        ctx.sim_time += 1
        for what, obj, then in handed_out:
            if canon(obj) != canon(then):
                _fail(ctx, "report_changed", "report_changed_later",
                      f"call {i}: the {what} object the user read after an earlier call now holds {str(obj)[:160]}; when it was read it held {str(then)[:160]}", cfg)
        import copy as _copy

        for what in ("feature_info",):
            obj = getattr(det, what, None)
            if obj is not None and not any(o is obj for _, o, _ in handed_out):
                handed_out.append((what, obj, _copy.deepcopy(obj)))
        del handed_out[:-6]
        uses_boot = (spec.j + 1 == 2 and db != 3)
        eps0 = float(det.epsilon[0]) if uses_boot and len(det.epsilon) >= 1 else None
        try:
            out = spec.step(X, eps0)
        except ValueError as e:
            if "Too many bins for data range" in str(e):     # a feature that is constant as far as floats can tell: outside the domain
                ctx.note("documented_refusal:histogram_of_constant_feature")
                raise EndRun()
            raise
        where = f"call {i} (batch {spec.j} of the epoch started by {epoch_by}, {out['ref_n']} reference rows, {len(X)} test rows)"
        if not close(det.current_distance, out["distance"], 1e-9):
            _fail(ctx, "distance", "distance", f"{where}: current_distance={det.current_distance!r}, model {out['distance']!r} ({out['bins']} bins)", cfg)
        if cfg["divergence"] in BOUND and det.current_distance > BOUND[cfg["divergence"]] + 1e-9:
            _fail(ctx, "distance", "distance_bound", f"{where}: distance {det.current_distance!r} exceeds its bound {BOUND[cfg['divergence']]!r}", cfg)
        if op == "same" and abs(det.current_distance) > 1e-12:
            _fail(ctx, "distance", "distance_identical_batch", f"{where}: batch identical to the reference has distance {det.current_distance!r}", cfg)
        if out["epsilon"] is not None and (not det.epsilon or not close(det.epsilon[-1], out["epsilon"], 1e-9)):
            _fail(ctx, "epsilon", "epsilon", f"{where}: epsilon={det.epsilon[-1] if det.epsilon else None!r}, model {out['epsilon']!r}", cfg)
        if out["beta"] is not None and not close(getattr(det, "beta", None), out["beta"], 1e-9):
            _fail(ctx, "threshold", "beta", f"{where}: threshold beta={getattr(det, 'beta', None)!r}, documented formula gives {out['beta']!r}", cfg)
        got = det.drift_state == "drift"
        if det.drift_state not in (None, "drift"):
            _fail(ctx, "state", "state_value", f"drift_state={det.drift_state!r}", cfg)
        if got != out["drift"]:
            if out["margin"] <= 1e-10:
                ctx.near_tie()
            _fail(ctx, "decision", "decision", f"{where}: epsilon {out['epsilon']!r} vs threshold {out['beta']!r}: model drift={out['drift']}, detector {det.drift_state!r}", cfg)
        if out["beta"] is not None and det.epsilon and getattr(det, "beta", None) is not None \
                and got != bool(det.epsilon[-1] > det.beta):
            # strictness of "epsilon exceeds the threshold", judged on the detector's own reported numbers
            _fail(ctx, "decision", "decision_own_numbers", f"{where}: detector reports epsilon {det.epsilon[-1]!r}, threshold {det.beta!r} and drift_state {det.drift_state!r}", cfg)
        if det.batches_since_reset != spec.j:
            _fail(ctx, "counter", "epoch_counter", f"{where}: batches_since_reset={det.batches_since_reset}", cfg)
        want_ref = X if got else spec.ref
        have_ref = np.asarray(det.reference, dtype=float)
        if have_ref.shape != want_ref.shape or not np.array_equal(have_ref, want_ref):
            _fail(ctx, "reference", "reference_contents",
                  f"{where}: drift={got}: detector.reference has shape {have_ref.shape}, expected {'the drifted batch' if got else 'old reference + batch'} {want_ref.shape}", cfg)
        if not got and det.reference_n != len(spec.ref):
            _fail(ctx, "reference", "reference_n", f"{where}: reference_n={det.reference_n}, model {len(spec.ref)}", cfg)
        if got and X.shape[1] > 1:
            fi = getattr(det, "feature_info", None)
            ok = isinstance(fi, dict) and len(fi) == 3
            if ok:
                vals = list(fi.values())
                fe, fdist, idx = vals[0], vals[1], vals[2]
                ok = all(close(a, b, 1e-9) for a, b in zip(fdist, out["f_dist"])) and len(fdist) == X.shape[1]
                ok = ok and out["f_eps"] is not None and all(close(a, b, 1e-9) for a, b in zip(fe, out["f_eps"]))
                if ok:
                    srt = sorted(out["f_eps"], reverse=True)
                    if srt[0] - srt[1] > 1e-9 and idx != int(np.argmax(out["f_eps"])):
                        ok = False
            if not ok:
                _fail(ctx, "feature_info", "feature_info", f"{where}: feature_info={fi}, model distances {out['f_dist']} growth {out['f_eps']}", cfg)
        # ---- the bootstrap estimate (input of the model) validated from the recorded subsets
        if uses_boot:
            subs = [r for r in rec.log]
            if not subs:
                ctx.note("bootstrap_unverified")
                if eps0 is None or eps0 < 0:
                    _fail(ctx, "bootstrap", "bootstrap_range", f"{where}: bootstrap epsilon {eps0!r}", cfg)
            else:
                size = int((1 - 1 / cfg["subsets"]) * len(ref_before))
                shape_ok = (len(subs) == cfg["subsets"] and all(r["n"] == size and r["replace"] for r in subs)
                            and all(r["frame"].shape == ref_before.shape and np.array_equal(r["frame"], ref_before) for r in subs))
                if not shape_ok:
                    _fail(ctx, "bootstrap", "bootstrap_subsets",
                          f"{where}: {len(subs)} subsets of sizes {[r['n'] for r in subs]} (replace={[r['replace'] for r in subs]}) drawn; documented: {cfg['subsets']} subsets of "
                          f"{size} rows with replacement from the current reference", cfg)
                want = H.epsilon0_from_subsets([r["rows"] for r in subs], out["bins"], out["los"], out["his"], spec.div)
                if not close(eps0, want, 1e-9):
                    _fail(ctx, "bootstrap", "bootstrap_value", f"{where}: initial epsilon {eps0!r}, recomputed from the recorded subsets {want!r}", cfg)
                ctx.probe("bootstrap_validated")
        elif rec.log:
            _fail(ctx, "bootstrap", "unexpected_bootstrap", f"{where}: bootstrap subsets drawn on a batch that does not need them", cfg)
        # ---- symmetry for equal sizes (roles swapped in a second detector)
        if spec.j == 1 and db != 1 and len(ref_before) == len(X) and not got and cfg["divergence"] != "AKL":
            det2 = build(cfg)
            det2.set_reference(X.copy())
            det2.update(ref_before.copy())
            if not close(det2.current_distance, det.current_distance, 1e-9):
                _fail(ctx, "distance", "distance_symmetry", f"{where}: d(ref,batch)={det.current_distance!r} but d(batch,ref)={det2.current_distance!r}", cfg)
            ctx.probe("symmetry_checked")
        if got:
            drifts += 1
            drifted_batch = X
            if spec.j == max(db, 2) if db != 1 else spec.j == 2:
                ctx.probe("drift_on_first_eligible_batch")
            if prev_drift:
                ctx.probe("two_drifts_in_a_row")
        if spec.j == 3 and db != 3:
            ctx.probe("bootstrap_value_dropped_at_third_batch")
        prev_drift = got
        ctx.obs(det.drift_state, round(out["distance"], 10), spec.j)
        ctx.state(cfg["cls"], db, cfg["statistic"], min(spec.j, 5), got)
    ctx.nontrivial = drifts >= 2


def truncate(case, step):
    c = dict(case)
    c["events"] = case["events"][: step + 1]
    return c


def fix(case):
    ev = case["events"]
    return case if ev and ev[0][0] == "ref" else None


def summarize(case):
    ev = case["events"]
    return {"cfg": case["cfg"], "ops": "".join({"ref": "S", "u": "u", "same": "=", "refcorr": "C"}[e[0]] for e in ev),
            "batch_sizes": [len(e[1]) if e[1] else None for e in ev], "features": len(ev[0][1][0])}
