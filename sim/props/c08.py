"""C08 - the kdq-tree partitions space consistently and conserves counts.

Stated plainly: nothing in this component is nondeterministic, timed or shared.  The simulator is used
as a seeded operation-history generator (build once, then any sequence of fill x ids x reset, reset,
queries) with a brute-force point-to-cell model that walks the public tree.  No fault dimension exists
and none is claimed.
"""
import numpy as np

from sim.core import EndRun, close
from sim.models import kdq as K

PROP = "C08"
LEVEL = "exploration"
RULE = (
    "seeded point sets (continuous / integer-valued / duplicated rows / points exactly on split values, 1-4 dims, 5-160 "
    "points) x count_ubound 1-12 x cutpoint_proportion_lbound x operation histories of 4-14 ops (fill under 1-3 ids with and "
    "without reset, refill of the build data under a new id, reset(value, id), queries leaf_counts / kl_distance / "
    "to_plotly_dataframe with and without max_depth); after every op every node count of every id is compared with the "
    "brute-force model, plus structure, conservation and divergence identities. Non-trivial: tree has >=3 leaves and >=2 ids "
    "were filled; distinct = digests."
)
STATE_MEASURE = "distinct (dims, number of leaves capped at 12, op kind, id known before?, reset flag) tuples"
WHITE_BOX = ["public tree attributes only: node.axis, midpoint_at_axis, left, right, num_samples_in_compared_subtrees, partitioner.leaves"]
SIM_TIME_UNIT = "partitioner operations"


def scenarios(tier):
    k = 1 if tier == "quick" else 10
    return [("ops", 3000 * k)]


def _points(rng, n, d, mode, center=0.0, scale=1.0):
    rows = []
    for _ in range(n):
        if rows and mode == "dup" and rng.random() < 0.3:
            rows.append(list(rng.choice(rows)))
            continue
        r = [rng.gauss(center, scale) for _ in range(d)]
        if mode in ("int", "grid"):
            r = [float(round(v * (2 if mode == "grid" else 1))) / (2 if mode == "grid" else 1) for v in r]
        else:
            r = [round(v, 3) for v in r]
        rows.append(r)
    return rows


def gen(rng, scenario, tier):
    d = rng.randint(1, 4)
    mode = rng.choice(["cont", "cont", "int", "grid", "dup"])
    n = rng.randint(5, 160)
    cfg = {"count_ubound": rng.randint(1, 12), "cutpoint_proportion_lbound": rng.choice([2e-10, 2e-10, 0.05, 0.25])}
    build = _points(rng, n, d, mode, scale=rng.choice([1.0, 3.0]))
    if rng.random() < 0.03:
        # a sorted, geometrically decaying series: every split peels off one point, the tree is as deep as the data is long
        d, m = 1, rng.randint(56, 64)
        build = [[-(2.0 ** -j)] for j in range(m)]
        cfg = {"count_ubound": 1, "cutpoint_proportion_lbound": 2e-10}
    ops = []
    ids = ["test", "t2", "t3"]
    for _ in range(rng.randint(4, 14)):
        c = rng.random()
        if c < 0.5:
            m = rng.choice([0, 1, rng.randint(2, 60)])
            pts = _points(rng, m, d, mode, center=rng.choice([0.0, 0.0, 1.5]), scale=rng.choice([1.0, 3.0]))
            if pts and rng.random() < 0.3:
                pts[0] = list(rng.choice(build))  # a point exactly equal to a build point (possibly on a split value)
            if pts and rng.random() < 0.06:
                pts[-1] = list(pts[-1])
                pts[-1][rng.randrange(d)] = rng.choice(["inf", "-inf"])   # an unbounded reading: it belongs to an outermost cell
            # (also under the id "build": a reference that is grown or replaced incrementally)
            ops.append(["fill", pts, rng.choice(ids + ["build"]) if rng.random() < 0.25 else rng.choice(ids), rng.random() < 0.5])
        elif c < 0.6:
            ops.append(["refill_build", rng.choice(["copy1", "copy2"])])
        elif c < 0.68:
            ops.append(["reset", rng.choice([0, 0, 3]), rng.choice(ids + ["build"])])
        elif c < 0.84:
            ops.append(["kl", rng.choice(ids + ["build"]), rng.choice(ids + ["build"])])
        else:
            ops.append(["plotly", rng.choice(["build"] + ids), rng.choice(ids + [None]), rng.choice([None, None, 1, 2]), rng.random() < 0.35])
    return {"cfg": cfg, "build": build, "events": ops}


def _check_all(ctx, part, nodes, model, consistent, totals, t, op):
    for node, depth, parent in nodes:
        have = node.num_samples_in_compared_subtrees
        for tid, m in model.items():
            want = m.get(id(node))
            got = have.get(tid)
            if want is None:
                continue
            if got != want:
                ctx.violation("count", "C08:node_count",
                              f"op {t} {op[0]}: node at depth {depth} holds {got} for id {tid!r}, brute-force model {want}")
                raise EndRun()
        if not K.is_leaf(node):
            for tid in model:
                if not consistent.get(tid):
                    continue
                a = node.left.num_samples_in_compared_subtrees.get(tid, 0) if node.left is not None else 0
                b = node.right.num_samples_in_compared_subtrees.get(tid, 0) if node.right is not None else 0
                if have.get(tid) != a + b:
                    ctx.violation("conservation", "C08:parent_sum",
                                  f"op {t} {op[0]}: id {tid!r}: node count {have.get(tid)} != children {a} + {b} (depth {depth})")
                    raise EndRun()
    for tid in model:
        if not consistent.get(tid):
            continue
        lc = part.leaf_counts(tid)
        lc = None if lc is None else [int(v) for v in lc]
        if lc is None or sum(lc) != totals[tid]:
            ctx.violation("conservation", "C08:leaf_total",
                          f"op {t} {op[0]}: leaf counts of id {tid!r} sum to {None if lc is None else sum(lc)}, {totals[tid]} points were filled since its last reset")
            raise EndRun()


def run(case, ctx):
    from menelaus.partitioners import KDQTreePartitioner

    cfg = case["cfg"]
    data = np.array(case["build"], dtype=float)
    if data.ndim != 2 or len(data) == 0:
        raise EndRun()
    part = ctx.call("C08:ctor", KDQTreePartitioner, **cfg)
    root = ctx.call("C08:build", part.build, data.copy())
    ctx.sim_time += 1
    if root is None or part.node is not root:
        ctx.violation("build", "C08:build_result", "build() did not return / store the root node")
        raise EndRun()
    d = data.shape[1]
    min_sizes = [int(cfg["cutpoint_proportion_lbound"] * np.ptp(data[:, a])) for a in range(d)]
    probs = K.check_structure(root, data, cfg["count_ubound"], min_sizes)
    if probs:
        ctx.violation("structure", "C08:structure", f"{probs[0]} ({len(probs)} problems); cfg={cfg}, {len(data)} points, {d} dims")
        raise EndRun()
    nodes = K.walk(root)
    leaves = [n for n, _, _ in nodes if K.is_leaf(n)]
    if len(part.leaves) != len(leaves) or {id(x) for x in part.leaves} != {id(x) for x in leaves}:
        ctx.violation("structure", "C08:leaves_list", f"partitioner.leaves lists {len(part.leaves)} nodes, the tree has {len(leaves)} leaves")
        raise EndRun()
    model = {"build": K.route(root, data)}
    for n, _, _ in nodes:
        model["build"].setdefault(id(n), 0)
    consistent = {"build": True}
    totals = {"build": len(data)}
    _check_all(ctx, part, nodes, model, consistent, totals, -1, ["build"])
    filled_ids = set()
    build_touched = False      # the counts under "build" are the build's own until something is filled / reset under that id
    for t, op in enumerate(case["events"]):
        ctx.step = t
        ctx.sim_time += 1
        if op[0] in ("fill", "refill_build"):
            if op[0] == "fill":
                pts = np.array([[float(v) for v in r] for r in op[1]], dtype=float).reshape(-1, d)
                tid, reset = op[2], op[3]
            else:
                pts, tid, reset = data, op[1], True
            known = tid in model
            if tid == "build":
                build_touched = True
            ctx.call("C08:fill", part.fill, pts.copy(), tid, reset)
            routed = K.route(root, pts)
            m = model.setdefault(tid, {})
            for n, _, _ in nodes:
                c = routed.get(id(n), 0)
                if id(n) in m and not reset:
                    m[id(n)] += c
                else:
                    m[id(n)] = c
            if reset or not known:
                totals[tid], consistent[tid] = len(pts), True
            else:
                totals[tid] = totals.get(tid, 0) + len(pts)
            filled_ids.add(tid)
            ctx.state(d, min(len(leaves), 12), op[0], known, reset)
            if op[0] == "refill_build":
                lc_b, lc_t = [int(v) for v in part.leaf_counts("build")], [int(v) for v in part.leaf_counts(tid)]
                if consistent["build"] and totals["build"] == len(data) and not build_touched and lc_b != lc_t:
                    ctx.violation("refill", "C08:refill_reproduces_build",
                                  f"op {t}: filling the build data under id {tid!r} gives leaf counts {lc_t}, build gave {lc_b}")
                    raise EndRun()
                ctx.probe("refill_of_build_data")
            if len(pts) == 0:
                ctx.probe("fill_with_no_points")
        elif op[0] == "reset":
            value, tid = op[1], op[2]
            if tid == "build":
                build_touched = True
            ctx.call("C08:reset", part.reset, value, tid)
            model[tid] = {id(n): value for n, _, _ in nodes}
            totals[tid] = 0
            consistent[tid] = value == 0
            ctx.state(d, min(len(leaves), 12), "reset", tid in model, value)
        elif op[0] == "kl":
            a, b = op[1], op[2]
            if a not in model or b not in model:
                continue
            got = ctx.call("C08:kl_distance", part.kl_distance, a, b)
            ca = [model[a][id(x)] for x in part.leaves]
            cb = [model[b][id(x)] for x in part.leaves]
            pa, pb = K.distn(ca), K.distn(cb)
            if abs(pa.sum() - 1) > 1e-12 or abs(pb.sum() - 1) > 1e-12:
                raise EndRun()
            want = K.kl(pa, pb)
            if not close(got, want, 1e-9) or got < -1e-12 or (ca == cb and abs(got) > 1e-12):
                ctx.violation("divergence", "C08:kl_distance",
                              f"op {t}: kl_distance({a!r},{b!r}) = {got!r}; corrected leaf distributions of counts {ca[:8]}.. and {cb[:8]}.. give {want!r}")
                raise EndRun()
            if ca == cb:
                ctx.probe("kl_of_equal_counts")
        elif op[0] == "plotly":
            a, b, md = op[1], op[2], op[3]
            if a not in model:
                continue
            cols = [f"col{j}" for j in range(data.shape[1])] if (len(op) > 4 and op[4]) else None   # column labels for the node names
            if cols is None:
                df = ctx.call("C08:to_plotly_dataframe", part.to_plotly_dataframe, a, b, md)
            else:
                ctx.probe("plotly_with_input_cols")
                df = ctx.call("C08:to_plotly_dataframe", part.to_plotly_dataframe, a, b, md, input_cols=cols)
            exp_nodes = [(n, dp, p) for n, dp, p in nodes if md is None or dp <= md]
            if len(df) != len(exp_nodes) or len(set(df["idx"])) != len(df):
                ctx.violation("plotly", "C08:plotly_rows",
                              f"op {t}: to_plotly_dataframe({a!r},{b!r},max_depth={md}) has {len(df)} rows ({len(set(df['idx']))} distinct), the tree has {len(exp_nodes)} nodes in range")
                raise EndRun()
            # rows are matched to nodes through the parent links (whatever the library uses as node ids): root = the row without a
            # parent; the children of a matched row are the rows naming it as parent, told apart by the "<=" / ">" of their labels
            recs_ = df.to_dict("records")
            null = lambda v: v is None or (isinstance(v, float) and np.isnan(v))  # noqa: E731
            kids_of = {}
            for r_ in recs_:
                if not null(r_["parent_idx"]):
                    kids_of.setdefault(r_["parent_idx"], []).append(r_)
            roots_ = [r_ for r_ in recs_ if null(r_["parent_idx"])]
            by_idx = {}
            if len(roots_) == 1:
                stack = [(root, roots_[0])]
                while stack:
                    nd_, row_ = stack.pop()
                    by_idx[id(nd_)] = row_
                    ks = kids_of.get(row_["idx"], [])
                    for child, tok in ((nd_.left, " <= "), (nd_.right, " > ")):
                        if child is None:
                            continue
                        cand = [k_ for k_ in ks if tok in str(k_["name"])]
                        if len(cand) == 1:
                            stack.append((child, cand[0]))
            ref_tot = model[a][id(root)]
            test_tot = (model[b][id(root)] if (b in model) else 0) if b is not None else None
            for n, dp, p in exp_nodes:
                r = by_idx.get(id(n))
                if r is None:
                    ctx.violation("plotly", "C08:plotly_missing_node", f"op {t}: a node at depth {dp} is not listed")
                    raise EndRun()
                pi = r["parent_idx"]
                pi = None if null(pi) else pi
                pi = None if pi is None else (id(p) if (p is not None and by_idx.get(id(p)) is not None and by_idx[id(p)]["idx"] == pi) else -1)
                if cols is not None and p is not None and not str(r["name"]).startswith(cols[p.axis] + " "):
                    ctx.violation("plotly", "C08:plotly_name",
                                  f"op {t}: node depth {dp} is named {r['name']!r}; its parent splits on axis {p.axis} ({cols[p.axis]!r})")
                    raise EndRun()
                want_diff = None
                if b is not None:
                    want_diff = (model[b][id(n)] if b in model else 0) - model[a][id(n)]
                if pi != (None if p is None else id(p)) or r["depth"] != dp or r["cell_count"] != model[a][id(n)] or \
                        (b is not None and r["count_diff"] != want_diff):
                    ctx.violation("plotly", "C08:plotly_fields",
                                  f"op {t}: node depth {dp}: row {dict((k, r[k]) for k in ('depth', 'cell_count') )} count_diff={r.get('count_diff')} "
                                  f"expected depth {dp}, cell_count {model[a][id(n)]}, count_diff {want_diff}")
                    raise EndRun()
                if b is not None and consistent.get(a) and (b not in model or consistent.get(b)):
                    want = K.kss(model[a][id(n)], model[a][id(n)] + want_diff, ref_tot, test_tot)
                    if not close(r["kss"], want, 1e-9):
                        ctx.violation("plotly", "C08:plotly_kss",
                                      f"op {t}: node depth {dp}: kss {r['kss']!r}; two-cell corrected divergence of ({model[a][id(n)]} of {ref_tot}) vs "
                                      f"({model[a][id(n)] + want_diff} of {test_tot}) is {want!r}")
                        raise EndRun()
            if b is not None and test_tot != ref_tot:
                ctx.probe("kss_with_unequal_totals")
        _check_all(ctx, part, nodes, model, consistent, totals, t, op)
        ctx.obs(op[0], [model[i].get(id(root)) for i in sorted(model)])
    on_mid = sum(1 for n, _, _ in nodes if not K.is_leaf(n) and np.any(data[:, n.axis] == n.midpoint_at_axis))
    if on_mid:
        ctx.probe("build_point_exactly_on_a_split_value")
    ctx.nontrivial = len(leaves) >= 3 and len(filled_ids) >= 2


def truncate(case, step):
    c = dict(case)
    c["events"] = case["events"][: step + 1]
    return c


def shrink(case):
    b = case["build"]
    for cut in (len(b) // 2, len(b) - 1):
        if 2 <= cut < len(b):
            c = dict(case)
            c["build"] = b[:cut]
            yield c


def summarize(case):
    return {"cfg": case["cfg"], "n_build_points": len(case["build"]), "dims": len(case["build"][0]),
            "ops": [[o[0]] + ([len(o[1]), o[2], o[3]] if o[0] == "fill" else o[1:]) for o in case["events"]]}
