"""C02 - after a drift (or a new reference) a detector starts from a clean slate.

This is the library's crash-recovery property: after the restart event the "node" must be
indistinguishable from a new process that was given only the documented carry-over.  The primary
detector P runs the whole history; at every reported drift (and at every explicit set_reference) the
simulator spawns a fresh twin T of the same class and parameters with the documented carry-over and
from then on feeds both the same events under the same per-call numpy seed.  Both sides are the real
code, so no model can misrepresent it.
"""
import numpy as np

from sim import adapters, workload
from sim.core import EndRun, close, np_seed

PROP = "C02"
FORKS = True      # snapshot / restore events (core.Ctx.maybe_fork)
LEVEL = "exploration"
RULE = (
    "DDM, EDDM, STEPD, PageHinkley, CUSUM, KdqTreeStreaming, KdqTreeBatch, HDDDM, CDBD, NNDVI x randomised knobs x "
    "seeded multi-epoch histories (restart instants fall wherever the detector alarms; batch detectors also get "
    "explicit set_reference events at seeded instants); after every call following a restart, every observable of "
    "the primary (state, recommendations shifted by the items seen before, since-reset counter, public statistics) is "
    "compared with a fresh twin fed only the post-restart data plus the documented carry-over, under an identical "
    "numpy seed schedule. Non-trivial run: >=1 restart followed by >= 5 compared steps; distinct = distinct digests."
)
STATE_MEASURE = "distinct (detector, restart cause, epoch index capped at 5, twin age bucket, state) tuples"
WHITE_BOX = ["private running statistics (e.g. PageHinkley._sum, DDM._error_rate, Kdq*._critical_dist) are compared when both sides have them"]
DETS = {"DDM": 150, "EDDM": 150, "STEPD": 120, "PageHinkley": 150, "CUSUM": 150, "KdqTreeStreaming": 60,
        "KdqTreeBatch": 60, "HDDDM": 90, "CDBD": 70, "NNDVI": 50}


def scenarios(tier):
    k = 1 if tier == "quick" else 10
    return [(n, 2 * v * k) for n, v in DETS.items()]


def gen(rng, scenario, tier):
    name = scenario
    cfg = adapters.sample_cfg(rng, name)
    k = adapters.kind(name)
    ev = []
    if k == "batch":
        d = adapters.n_features(rng, name)
        nb = rng.randint(8, 24)
        bs, drifts = workload.batches(rng, nb + 1, d, 8, 40, drift_rate=rng.choice([0.3, 0.5]))
        ev.append(["ref", bs[0], np_seed(rng)])
        inject = rng.random() < 0.6
        last_ref = bs[0]
        for b in bs[1:]:
            if inject and rng.random() < 0.12:
                if rng.random() < 0.35:
                    b = [list(r) for r in last_ref]      # set_reference with the SAME rows as the last explicit reference: still a new start
                last_ref = b
                ev.append(["ref", b, np_seed(rng)])
            else:
                ev.append(["u", b, np_seed(rng)])
    else:
        n = rng.randint(80, 400)
        if k == "x":
            knd = rng.choice(["gauss", "gauss", "ramp", "heavy"]) if name == "CUSUM" else None
            xs, drifts = workload.stream_values(rng, n, kind=knd, drift_rate=rng.choice([0.01, 0.02, 0.04]))
        elif k == "y":
            xs, drifts = workload.outcomes(rng, n)
        else:
            xs, drifts = workload.mv_stream(rng, n, adapters.n_features(rng, name), drift_rate=rng.choice([0.01, 0.03]))
        ev = [["u", x, np_seed(rng)] for x in xs]
    return {"det": name, "cfg": cfg, "events": ev, "drift_positions": drifts}


def _args(k, x):
    if k == "x":
        return (x,)
    if k == "y":
        return (x[0], x[1])
    if k == "xx":
        return (np.array([x], dtype=float),)
    return (np.array(x, dtype=float),)


def _same(a, b):
    if isinstance(a, (list, tuple)) and isinstance(b, (list, tuple)):
        return len(a) == len(b) and all(_same(x, y) for x, y in zip(a, b))
    if isinstance(a, bool) or isinstance(b, bool) or a is None or b is None or isinstance(a, str) or isinstance(b, str):
        return a == b
    if isinstance(a, (int, float)) and isinstance(b, (int, float)):
        return close(a, b, 1e-12)
    return a == b


def run(case, ctx):
    name, cfg = case["det"], case["cfg"]
    k = adapters.kind(name)
    P = ctx.call(f"C02:{name}:ctor", adapters.build, name, cfg, case.get("retype"))     # (the fresh twins get the plain types)
    T = None
    offset = None          # P.total - T.total, fixed at the first lock-step call
    cause = None
    epoch_no = 0
    twin_age = 0
    history = []           # CUSUM: all inputs as the detector stores them
    prev_payload = None
    compared = 0
    restarts = 0
    last_state = None
    for i, ev in enumerate(case["events"]):
        ctx.step = i
        P = ctx.maybe_fork(P)          # (the fresh twins are never snapshotted)
        op, x, seed = ev
        a = _args(k, x)
        if op == "ref":
            np.random.seed(seed)
            ctx.call(f"C02:{name}:set_reference", P.set_reference, a[0].copy())
            if i > 0:
                ctx.fault("explicit_set_reference")
                restarts += 1
            prev_payload, last_state = None, None
            if i == 0:
                continue  # the initial reference: P itself is the fresh detector
            T = adapters.build(name, cfg)
            np.random.seed(seed)
            T.set_reference(a[0].copy())
            offset, cause, twin_age = None, "set_reference", 0
            epoch_no += 1
            continue
        if last_state == "drift":
            # the update that follows a reported drift restarts P: spawn the fresh twin now
            restarts += 1
            epoch_no += 1
            carry = dict(cfg)
            if name == "CUSUM":
                b = cfg["burn_in"]
                carry["target"] = np.mean(history[-b:])
                carry["sd_hat"] = np.std(history[-b:])
                if carry["sd_hat"] == 0:
                    raise EndRun()
                if len(history) < b:
                    ctx.probe("cusum_restart_with_history_shorter_than_burn_in")
            T = adapters.build(name, carry)
            if k == "batch":
                np.random.seed(seed)
                T.set_reference(prev_payload.copy())
            offset, cause, twin_age = None, "drift", 0
        if name == "CUSUM":
            history.append(np.array([[x]], dtype=float))
        np.random.seed(seed)
        ctx.call(f"C02:{name}:update", P.update, *[v.copy() if hasattr(v, "copy") else v for v in a])
        ctx.sim_time += 1
        if k == "batch":
            prev_payload = a[0]
        oP = adapters.observe(P)
        last_state = oP["state"]
        if T is not None:
            np.random.seed(seed)
            ctx.call(f"C02:{name}:twin_update", T.update, *[v.copy() if hasattr(v, "copy") else v for v in a])
            oT = adapters.observe(T)
            twin_age += 1
            if offset is None:
                offset = oP["total"] - oT["total"]
            diffs = []
            for key, vT in oT.items():
                vP = oP.get(key)
                if key == "total":
                    if vP - vT != offset:
                        diffs.append((key, vP, vT + offset))
                elif key == "since_reset":
                    if cause == "drift" and vP != vT:
                        diffs.append((key, vP, vT))
                elif key == "recs":
                    shifted = [None if v is None else v + offset for v in vT]
                    if list(vP) != shifted:
                        diffs.append((key, vP, shifted))
                elif not _same(vP, vT):
                    diffs.append((key, vP, vT))
            if diffs:
                key, vP, vT = diffs[0]
                ctx.violation("twin", f"C02:{name}:{cause}:{key}",
                              f"call {i}, {twin_age} calls after the restart by {cause} (epoch {epoch_no}): primary reports {key}={_short(vP)} "
                              f"but a fresh twin with the documented carry-over reports {_short(vT)}; all differing: {[d[0] for d in diffs]}; cfg={cfg}")
                raise EndRun()
            compared += 1
            ctx.state(name, cause, min(epoch_no, 5), min(twin_age // 10, 5), oP["state"])
            if twin_age == 1 and oP["state"] == "drift":
                ctx.probe("drift_on_first_update_after_restart")
        ctx.obs(oP["state"], oP.get("since_reset"))
        if oP["state"] == "drift" and T is not None and cause == "set_reference":
            ctx.probe("drift_in_epoch_started_by_set_reference")
    if epoch_no >= 2:
        ctx.probe("second_epoch_reached")
    if epoch_no >= 3:
        ctx.probe("third_epoch_reached")
    ctx.note("compared_steps", compared)
    ctx.nontrivial = restarts >= 1 and compared >= 5


def _short(v):
    s = repr(v)
    return s if len(s) < 160 else s[:157] + "..."


def truncate(case, step):
    c = dict(case)
    c["events"] = case["events"][: step + 1]
    return c


def fix(case):
    ev = case["events"]
    if adapters.kind(case["det"]) == "batch" and (not ev or ev[0][0] != "ref"):
        return None
    return case


def summarize(case):
    ev = case["events"]
    return {"detector": case["det"], "cfg": case["cfg"], "n_events": len(ev),
            "ops": "".join("S" if e[0] == "ref" else "u" for e in ev[:80]),
            "environment_drift_positions": case.get("drift_positions", [])[:8]}
