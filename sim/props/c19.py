"""C19 - MD3 follows its warn / ask-the-oracle / confirm protocol.

Two parties - the stream source (`update`) and the labelling oracle (`give_oracle_label`) - are
interleaved by a seeded scheduler that picks who moves next regardless of legality, with sticky phases
so that waiting periods really fill: legal moves, update while waiting, label while not waiting, labels
with renamed / missing / extra columns, multi-row frames.  Reference model: protocol state machine +
margin-density recurrence + reference statistics recomputed over the folds recorded at the KFold seam.
The classifier and the margin function are deterministic user-supplied stubs.
"""
import numpy as np
import pandas as pd
from sklearn.base import BaseEstimator, ClassifierMixin
from sklearn.model_selection import KFold as RealKFold

from sim.core import EndRun, Violation, close
from sim import seams
from sim.seams import rebind

PROP = "C19"
FORKS = True      # snapshot / restore events (core.Ctx.maybe_fork)
LEVEL = "exploration"
RULE = (
    "seeded interleavings (40-260 moves) of the two parties with sticky phases (plus, index-derived, every interleaving of 6 move kinds "
    "up to length 5 (thorough: 6) on one small configuration); move kinds: update, update with 2 rows, label, "
    "label with renamed / missing / extra column, label with 2 rows - issued whether legal or not; x sensitivity x k x oracle "
    "length (None or >= k) x reference size x margin width; after every move: refusal exactly when the protocol says so, "
    "refused moves change no observable, state / waiting flag / margin density / reference statistics / counters equal the "
    "model's; scenario svc: a real linear sklearn SVC with MD3's default margin function (judged against the shipped reading of "
    "'in the margin', or the textbook one if the detector follows that consistently). Non-trivial: >=1 completed oracle round; distinct = digests."
)
STATE_MEASURE = "distinct (protocol state [idle / waiting(n labels)], move kind, accepted?) triples"
WHITE_BOX = []
STUBS = ["classifier: deterministic threshold rule on feature a (sklearn-cloneable; fit learns the threshold) - except scenario svc, which runs a real sklearn.svm.SVC",
         "margin function: |a - threshold| <= margin", "sklearn KFold wrapped by a recording subclass (real splits)"]
MOVES = ["update", "update2", "label", "label_perm", "label_renamed", "label_missing", "label_extra", "label2", "label_strnames"]


class Stub(ClassifierMixin, BaseEstimator):
    def __init__(self, margin=0.5):
        self.margin = margin

    def fit(self, X, y):
        X = np.asarray(X, dtype=float)
        y = np.asarray(y)
        a, b = X[y == 1, 0], X[y == 0, 0]
        self.t_ = float((a.mean() if len(a) else 0.0) + (b.mean() if len(b) else 0.0)) / 2
        self.classes_ = np.array([0, 1])
        return self

    def predict(self, X):
        return (np.asarray(X, dtype=float)[:, 0] > self.t_).astype(int)


def margin_fn(det, sample, clf):
    return int(abs(sample[0] - clf.t_) <= clf.margin)


# ---- classifier kits: "stub" (deterministic threshold rule + user margin function) and "svc" (a real linear
# sklearn.svm.SVC with MD3's DEFAULT margin function, the configuration the class documents as its default)
def make_clf(cfg):
    if cfg.get("clf") == "svc":
        from sklearn.svm import SVC

        return SVC(kernel="linear", C=cfg.get("C", 1.0))
    return Stub(cfg["margin"])


def signal(cfg, clf, x, variant=0):
    """margin-inclusion signal of one sample.  For the real SVC the property does not pin the formula of the default
    function: variant 0 is the shipped one (|w.x + intercept / w[1]| <= 1), variant 1 the textbook margin
    (|w.x + intercept| <= 1); a detector is judged against whichever it follows consistently (see run())."""
    if cfg.get("clf") == "svc":
        w = np.array(clf.coef_[0], dtype=float)
        b = float(clf.intercept_[0])
        v = abs(float(np.dot(w, x)) + (b / w[1] if variant == 0 else b))
        return int(v <= 1), abs(v - 1)
    return int(abs(x[0] - clf.t_) <= cfg["margin"]), abs(abs(x[0] - clf.t_) - cfg["margin"])


ENUM_KINDS = ["update_in", "update_out", "label_ok", "label_wrong", "update2", "label_renamed"]
ENUM_DEPTH = {"quick": 5, "thorough": 6}
INDEXED_SCENARIOS = ("enum",)


def _enum_total(depth):
    return sum(len(ENUM_KINDS) ** d for d in range(1, depth + 1))


def scenarios(tier):
    k = 1 if tier == "quick" else 10
    # "enum": index-derived enumeration of EVERY interleaving of 6 move kinds up to a bounded length on one small
    # configuration (the property's own quantifier for short histories); supplementary to the seeded interleavings
    return [("protocol", 260 * k), ("legal", 60 * k), ("svc", 90 * k), ("enum", _enum_total(ENUM_DEPTH[tier]))]


def gen_indexed(scenario, i, tier):
    """i-th move sequence in length-lexicographic order over ENUM_KINDS."""
    n = len(ENUM_KINDS)
    d = 1
    while i >= n ** d:
        i -= n ** d
        d += 1
    seq = []
    for _ in range(d):
        seq.append(ENUM_KINDS[i % n])
        i //= n
    # a fixed, well separated reference (threshold near 0, margin 0.5); sensitivity so small that the first
    # in-margin / out-of-margin sample that moves the density already warns
    ref = [[(1.0 if j % 2 else -1.0) + 0.1 * ((j * 7) % 5 - 2), 0.25 * ((j * 3) % 4), j % 2] for j in range(12)]
    cfg = {"N": 12, "k": 2, "sensitivity": 0.01, "oracle_len": 2, "margin": 0.5}
    ev = []
    for m in seq:
        if m == "update_in":
            ev.append(["update", [[0.1, 0.0, 1]]])
        elif m == "update_out":
            ev.append(["update", [[2.0, 0.0, 1]]])
        elif m == "label_ok":
            ev.append(["label", [[1.5, 0.0, 1]]])
        elif m == "label_wrong":
            ev.append(["label", [[1.5, 0.0, 0]]])
        elif m == "update2":
            ev.append(["update2", [[0.1, 0.0, 1], [2.0, 0.0, 0]]])
        else:
            ev.append(["label_renamed", [[1.5, 0.0, 1]]])
    return {"cfg": cfg, "ref": ref, "events": ev}


def _row(rng, shift, flip):
    y = rng.randint(0, 1)
    a = (2 * y - 1) * 1.0 + rng.gauss(shift, 1)
    b = rng.gauss(0, 1)
    yy = 1 - y if rng.random() < flip else y
    return [round(a, 3), round(b, 3), yy]


def gen(rng, scenario, tier):
    N = rng.randint(12, 40)
    k = rng.randint(2, 5)
    cfg = {"N": N, "k": k, "sensitivity": rng.choice([0.5, 1, 2]), "oracle_len": rng.choice([None, None, k, 5, 8, 12]),
           "margin": rng.choice([0.3, 0.6, 1.0])}
    if cfg["oracle_len"] is not None and cfg["oracle_len"] < k:
        cfg["oracle_len"] = k   # scikit-learn itself refuses a k-fold split of fewer than k rows
    if scenario == "svc":   # a real linear SVC and MD3's default margin function; enough labelled rows for both classes in every fold
        cfg.update(clf="svc", C=rng.choice([0.1, 1.0, 10.0]), oracle_len=rng.choice([None, 8, 12, 16]))
        cfg["k"] = rng.randint(2, 4)
    cfg["refit"] = rng.random() < 0.4
    cfg["int_cols"] = rng.random() < 0.2
    ref = [_row(rng, 0.0, 0.0) for _ in range(N)]
    ev = []
    shift, flip = 0.0, 0.0
    phase = "source"
    left = rng.randint(5, 40)
    for _ in range(rng.randint(40, 260)):
        if rng.random() < 0.04:
            shift, flip = rng.choice([0.0, 1.5, -1.5, 0.8]), rng.choice([0.0, 0.0, 0.5])
        if left <= 0:
            phase = "oracle" if phase == "source" else "source"
            left = rng.randint(5, 40) if phase == "source" else rng.randint(3, 14)
        left -= 1
        c = rng.random()
        if scenario == "legal":
            kind = "update" if phase == "source" else "label"
        elif phase == "source":
            kind = "update" if c < 0.86 else rng.choice(MOVES[1:])
        else:
            # (label_perm: the same columns in another order - legal, the refusal rule is about the SET of columns)
            kind = rng.choice(["label", "label", "label_perm"]) if c < 0.8 else rng.choice(["update", "update2", "label_renamed", "label_missing", "label_extra", "label2", "label_strnames"])
        if scenario != "legal" and phase == "source" and rng.random() < 0.012:
            kind = "reref"       # the user changes a hyper-parameter of the classifier and summarises the SAME reference again
        n_rows = 2 if kind.endswith("2") else 1
        ev.append([kind, [_row(rng, shift, flip) for _ in range(n_rows)]] + ([rng.choice([0.2, 0.45, 0.8, 1.3])] if kind == "reref" else []))
    return {"cfg": cfg, "ref": ref, "events": ev, "shuffled_index": rng.random() < 0.3}


class Harness:
    """MD3 + recorder + model, shared by the C19 protocol check and C01's MD3 lifecycle run."""

    def __init__(self, case, ctx):
        import menelaus.concept_drift.md3 as mm

        self.mm, self.ctx, self.cfg = mm, ctx, case["cfg"]
        self.variant = case.get("signal_variant", 0)
        self.splits = []
        harness = self

        class KFoldRec(RealKFold):
            def split(self, X, y=None, groups=None):
                for tr, te in super().split(X, y, groups):
                    if not seams.PAUSED[0]:
                        harness.splits.append((tr.copy(), te.copy(), len(X)))
                    yield tr, te

        self.kfold = KFoldRec

    def refstats(self, df):
        """mean / std over the recorded folds of margin density and accuracy (the folds must partition the rows)."""
        cfg = self.cfg
        Xdf = df[["a", "b"]]
        X, y = Xdf.to_numpy(dtype=float), df["y"].to_numpy()
        folds = self.splits[-cfg["k"]:]
        ok = len(folds) == cfg["k"] and all(f[2] == len(df) for f in folds) and \
            sorted(np.concatenate([f[1] for f in folds]).tolist()) == list(range(len(df)))
        if not ok:
            self.ctx.violation("reference", "C19:folds",
                               f"the reference statistics were not computed over {cfg['k']} cross-validation folds that partition the {len(df)} reference rows "
                               f"(recorded {len(self.splits)} splits)")
            raise EndRun()
        mds, accs = [], []
        for tr, te, _ in folds:
            try:
                c = make_clf(cfg).fit(Xdf.iloc[tr], y[tr])
            except ValueError:
                self.ctx.note("reference_outside_classifier_domain")    # e.g. one class only in a training fold (SVC refuses)
                raise EndRun()
            mds.append(float(np.mean([signal(cfg, c, x, self.variant)[0] for x in X[te]])))
            accs.append(float(np.mean(c.predict(Xdf.iloc[te]) == y[te])))
        return {"len": len(df), "md": float(np.mean(mds)), "md_std": float(np.std(mds)), "acc": float(np.mean(accs)), "acc_std": float(np.std(accs))}

    def check_stored(self, det, df, where):
        """the reference the detector exposes (reference_batch_features / reference_batch_target) holds the rows it was given -
        whatever the caller has done to its own frame since"""
        f, t = getattr(det, "reference_batch_features", None), getattr(det, "reference_batch_target", None)
        if f is None or t is None:
            return
        ok = np.array_equal(np.asarray(f, dtype=float), df[["a", "b"]].to_numpy(dtype=float)) and \
            np.array_equal(np.asarray(t, dtype=float).ravel(), df["y"].to_numpy(dtype=float))
        if not ok:
            self.ctx.violation("reference", "C19:stored_reference",
                               f"{where}: reference_batch_features / reference_batch_target do not hold the {len(df)} rows the detector was given "
                               f"(first stored row {np.asarray(f, dtype=float)[0].tolist()} / {np.asarray(t, dtype=float).ravel()[:1].tolist()}, given {df.iloc[0].tolist()})")
            raise EndRun()

    def check_ref(self, det, st, where):
        rd = det.reference_distribution
        for key in st:
            if not close(rd.get(key), st[key], 1e-12):
                self.ctx.violation("reference", "C19:reference_statistics",
                                   f"{where}: reference_distribution[{key!r}]={rd.get(key)!r}, recomputed over the recorded folds {st[key]!r}")
                raise EndRun()


def _frame(rows, kind="ok"):
    df = pd.DataFrame(rows, columns=["a", "b", "y"])
    df["y"] = df["y"].astype(int)
    if kind == "label_perm":
        df = df[["y", "b", "a"]]
    elif kind == "label_renamed":
        df = df.rename(columns={"b": "zz"})
    elif kind == "label_missing":
        df = df[["a", "y"]]
    elif kind == "label_extra":
        df["extra"] = 1.0
    return df


def _snapshot(det):
    return (det.drift_state, det.waiting_for_oracle, None if det.oracle_data is None else len(det.oracle_data),
            float(det.curr_margin_density), dict(det.reference_distribution), det.total_updates, det.updates_since_reset)


def run(case, ctx, lifecycle=False):
    if case["cfg"].get("clf") != "svc":
        return _run(case, ctx, lifecycle)
    # real SVC + MD3's default margin function: judged against the shipped reading of "in the margin" and, only if that
    # fails, against the textbook one - the property pins the protocol and the recurrence, not that formula
    try:
        return _run(dict(case, signal_variant=0), ctx, lifecycle)
    except Violation as v0:
        try:
            _run(dict(case, signal_variant=1), ctx, lifecycle)
        except Violation:
            raise v0
        ctx.note("default_margin_function_follows_textbook_formula")


def _sklearn_domain(e):
    return isinstance(e, ValueError) and "number of classes" in str(e)


def _run(case, ctx, lifecycle=False):
    from menelaus.concept_drift import MD3

    cfg = case["cfg"]
    h = Harness(case, ctx)
    with rebind(h.mm, KFold=h.kfold) as missing:
        if missing:
            ctx.note("kfold_seam_missing")
        # ---- how frames reach the detector: optionally with integer column labels (target label 0), optionally built over
        # ---- caller-owned arrays (copy=False) that the caller overwrites as soon as the call has returned
        names = {"a": 1, "b": 2, "y": 0} if cfg.get("int_cols") else None
        target = 0 if names else "y"
        owned = []

        def deliver(df):
            if names:
                df = df.rename(columns=names)
                if list(df.columns)[-1] == 0:
                    df = df[[0] + list(df.columns)[:-1]]      # the class label (column label 0) comes first, as in a default-labelled frame
            if case.get("scribble"):
                arr = df.to_numpy(dtype=float).copy()
                df = pd.DataFrame(arr, columns=list(df.columns), index=df.index, copy=False)
                owned.append(arr)
            return df

        def caller_reuses_buffers():
            for arr in owned:
                arr[...] = 9e5
                ctx.fault("scribble_after_call")
            del owned[:]

        ref = _frame(case["ref"])
        if case.get("shuffled_index"):
            idx = list(range(len(ref)))
            idx = idx[len(idx) // 3:] + idx[: len(idx) // 3][::-1]     # a permuted integer index (as after df.sample(frac=1))
            if len(idx) % 2 == 1:
                # repeated row labels (as after pd.concat([a, b]) without ignore_index): the folds are positional (wave 10, V05-w10m1)
                half = len(idx) // 2
                idx = list(range(half)) + list(range(len(idx) - half))
                ctx.fault("duplicate_row_labels")
            ref.index = idx
        try:
            clf = make_clf(cfg).fit(ref[["a", "b"]] if not names else ref[["a", "b"]].to_numpy(), ref["y"].to_numpy())
        except ValueError:
            raise EndRun()
        if cfg.get("clf") == "svc":     # the class's documented default: an SVC and its own margin function
            det = ctx.call("C19:ctor", MD3, clf, sensitivity=cfg["sensitivity"], k=cfg["k"], oracle_data_length_required=cfg["oracle_len"])
        else:
            det = ctx.call("C19:ctor", MD3, clf, margin_calculation_function=margin_fn, sensitivity=cfg["sensitivity"], k=cfg["k"],
                           oracle_data_length_required=cfg["oracle_len"])
        try:
            det.set_reference(deliver(ref), target_name=target)
        except Exception as e:  # noqa: BLE001
            if _sklearn_domain(e):
                ctx.note("reference_outside_classifier_domain")
                raise EndRun()
            ctx.call("C19:set_reference", det.set_reference, deliver(ref), target_name=target)
        caller_reuses_buffers()
        if missing:
            raise EndRun()
        st = h.refstats(ref)
        h.check_ref(det, st, "initial reference")
        h.check_stored(det, ref, "initial reference")
        N = len(ref)
        Lreq = cfg["oracle_len"] if cfg["oracle_len"] is not None else N
        md, ff = st["md"], (N - 1) / N
        waiting, state, odata = False, None, []
        n_updates = since = 0
        rounds = confirmed = ruled_out = warnings = 0
        refused_states = set()
        for t, evt in enumerate(case["events"]):
            kind, rows = evt[0], evt[1]
            ctx.step = t
            det = ctx.maybe_fork(det)
            clf = det.classifier          # (after a snapshot / restore the user's classifier is the restored one)
            if kind == "reref":
                if waiting or state == "drift":
                    continue
                # same reference rows, another hyper-parameter of the user's classifier (the stub's margin width / the SVC's C):
                # set_reference must summarise the reference afresh, with clones of the classifier as it is NOW
                if cfg.get("clf") == "svc":
                    cfg = dict(cfg, C={0.1: 1.0, 1.0: 10.0, 10.0: 0.1}[cfg.get("C", 1.0)])
                    clf.set_params(C=cfg["C"])
                else:
                    cfg = dict(cfg, margin=evt[2] if len(evt) > 2 else 0.45)
                    clf.set_params(margin=cfg["margin"])
                h.cfg = cfg
                cur = ref if rounds == 0 else cur_ref
                try:
                    det.set_reference(deliver(cur), target_name=target)
                except Exception as e:  # noqa: BLE001
                    if _sklearn_domain(e):
                        raise EndRun()
                    ctx.call("C19:set_reference", det.set_reference, deliver(cur), target_name=target)
                caller_reuses_buffers()
                ctx.fault("reference_summarised_again_after_set_params")
                st = h.refstats(cur)
                h.check_ref(det, st, f"move {t}: the same reference summarised again after set_params")
                N = len(cur)
                md, ff = st["md"], (N - 1) / N
                if not close(det.curr_margin_density, md, 1e-12):
                    ctx.violation("margin_density", "C19:margin_density", f"move {t} (reref): curr_margin_density={det.curr_margin_density!r}, reference margin density {md!r}")
                    raise EndRun()
                continue
            is_update = kind.startswith("update")
            snap = _snapshot(det)
            pstate = f"waiting({len(odata)})" if waiting else "idle"
            if is_update:
                X = _frame(rows)[["a", "b"]]
                Xd = deliver(X)
                legal = (not waiting) and len(rows) == 1
                call = lambda: det.update(Xd)  # noqa: E731
            else:
                lab = deliver(_frame(rows, kind))
                if kind == "label_strnames":
                    lab.columns = [str(c) for c in lab.columns]      # the same labels as text (a row read back from a csv file)
                legal = waiting and (kind in ("label", "label_perm") or (kind == "label_strnames" and not names))
                call = lambda: det.give_oracle_label(lab)  # noqa: E731
            try:
                try:
                    call()
                finally:
                    caller_reuses_buffers()
                raised = None
            except ValueError as e:
                raised = "ValueError"
                if legal and _sklearn_domain(e):
                    ctx.note("reference_outside_classifier_domain")     # the labelled samples hold one class only: SVC cannot be cross-validated
                    raise EndRun()
            except Exception as e:  # noqa: BLE001
                raised = type(e).__name__
            ctx.sim_time += 1
            ctx.state(pstate if not waiting else "waiting", kind, raised is None)
            if legal and raised is not None:
                ctx.violation("refused_legal", f"C19:{kind}:legal_move_refused", f"move {t} ({kind}) in state {pstate} raised {raised}; cfg={cfg}")
                raise EndRun()
            if not legal:
                ctx.fault("illegal_" + kind + ("_while_waiting" if waiting else "_while_idle"))
                refused_states.add((waiting, kind))
                if raised is None:
                    ctx.violation("accepted_illegal", f"C19:{kind}:illegal_move_accepted",
                                  f"move {t}: {kind} in state {pstate} (rows={len(rows)}) was accepted; the protocol refuses it; cfg={cfg}")
                    raise EndRun()
                if raised != "ValueError":
                    ctx.violation("wrong_exception", f"C19:{kind}:raised_{raised}", f"move {t}: {kind} in state {pstate} raised {raised}, not ValueError; cfg={cfg}")
                    raise EndRun()
                now = _snapshot(det)
                if now != snap:
                    diff = [i for i, (a, b) in enumerate(zip(now, snap)) if a != b]
                    names = ["drift_state", "waiting_for_oracle", "len(oracle_data)", "curr_margin_density", "reference_distribution", "total_updates", "updates_since_reset"]
                    ctx.violation("refused_changed_state", f"C19:{kind}:refused_call_changed:{names[diff[0]]}",
                                  f"move {t}: refused {kind} in state {pstate} changed {[names[i] for i in diff]}: {[snap[i] for i in diff]} -> {[now[i] for i in diff]}; cfg={cfg}")
                    raise EndRun()
                continue
            # ---- accepted move: advance the model
            margin = float("inf")
            if is_update:
                n_updates += 1
                if state == "drift":
                    md, state, since = st["md"], None, 0
                since += 1
                x = X.to_numpy(dtype=float)[0]
                sgn, smargin = signal(cfg, clf, x, h.variant)
                if cfg.get("clf") == "svc" and smargin <= 1e-9:
                    ctx.near_tie()
                md = ff * md + (1 - ff) * sgn
                lvl, thr = abs(md - st["md"]), cfg["sensitivity"] * st["md_std"]
                margin = abs(lvl - thr)
                if lvl > thr:
                    state, waiting = "warning", True
                    warnings += 1
            else:
                odata.append(rows[0])
                state = None
                if len(odata) == Lreq:
                    od = _frame(odata)
                    acc = float(np.mean(clf.predict(od[["a", "b"]]) == od["y"].to_numpy()))
                    lvl, thr = st["acc"] - acc, cfg["sensitivity"] * st["acc_std"]
                    margin = abs(lvl - thr)
                    state = "drift" if lvl > thr else None
                    rounds += 1
                    confirmed += state == "drift"
                    ruled_out += state is None
                    st = h.refstats(od)
                    cur_ref = od
                    N = len(od)
                    md, ff = st["md"], (N - 1) / N
                    waiting, odata = False, []
                    h.check_ref(det, st, f"move {t}: reference adopted from {N} labelled samples")
                    h.check_stored(det, od, f"move {t}: reference adopted from {N} labelled samples")
                    if cfg.get("refit"):
                        # the user's reaction to a completed round: the SAME classifier object is refitted in place on the
                        # labelled samples; from now on "the classifier's margin" is the refitted one's
                        try:
                            clf.fit(od[["a", "b"]] if not names else od[["a", "b"]].to_numpy(), od["y"].to_numpy())
                            ctx.fault("classifier_refitted_in_place")
                        except ValueError:
                            pass
            got = (det.drift_state, det.waiting_for_oracle)
            if got != (state, waiting):
                if margin <= 1e-12:
                    ctx.near_tie()
                ctx.violation("protocol", f"C19:{kind}:state",
                              f"move {t} ({kind}, accepted) from state {pstate}: detector (drift_state, waiting)={got}, protocol model {(state, waiting)}; cfg={cfg}")
                raise EndRun()
            if not close(det.curr_margin_density, md, 1e-12):
                ctx.violation("margin_density", "C19:margin_density",
                              f"move {t} ({kind}): curr_margin_density={det.curr_margin_density!r}, model {md!r} (forgetting factor {(N - 1)}/{N}); cfg={cfg}")
                raise EndRun()
            have_od = None if det.oracle_data is None else len(det.oracle_data)
            if have_od != (len(odata) or None):
                ctx.violation("oracle_data", "C19:oracle_data", f"move {t}: detector holds {have_od} labelled samples, model {len(odata)}; cfg={cfg}")
                raise EndRun()
            if det.total_updates != n_updates or det.updates_since_reset != since:
                ctx.violation("counters", "C19:counters" if not lifecycle else "C01:MD3:counters",
                              f"move {t}: counters ({det.total_updates}, {det.updates_since_reset}), {n_updates} updates accepted, {since} since the restart; cfg={cfg}")
                raise EndRun()
            if det.drift_state not in (None, "warning", "drift"):
                ctx.violation("state_domain", "C19:state_domain", f"drift_state={det.drift_state!r}")
            ctx.obs(kind, state, waiting, round(md, 12))
        if confirmed and ruled_out:
            ctx.probe("confirmation_and_ruling_out_in_one_run")
        if warnings >= 2:
            ctx.probe("two_warning_cycles")
        for w_, k_ in refused_states:
            ctx.probe(f"refused:{'waiting' if w_ else 'idle'}:{k_}")
        ctx.probe("oracle_rounds", rounds)
        ctx.nontrivial = rounds >= 1


def run_lifecycle(case, ctx):
    """C01's view of MD3 (legal moves only): counters and state domain are checked inside run()."""
    run(case, ctx, lifecycle=True)


def truncate(case, step):
    c = dict(case)
    c["events"] = case["events"][: step + 1]
    return c


def summarize(case):
    return {"scenario": case.get("scenario"), "cfg": case["cfg"], "n_moves": len(case["events"]),
            "moves": [e[0] for e in case["events"][:40]]}
