"""C06 - Linear Four Rates tracks the four rates and tests them against simulated bounds.

The one place in menelaus with real concurrency: with parallelize=True the four rate computations run
in a joblib thread pool over shared dictionaries and the shared global numpy RNG.  The simulator
replaces the pool at the module-level seam (lfr.Parallel / lfr.delayed) by a seeded baton scheduler
(sim/sched.py): real threads, exactly one runnable at a time, pre-emption at every line executed inside
lfr.py, every choice drawn from the run's PRNG.  Monte-Carlo draws are recorded at the np.random seam
with the thread that made them; the specification (sim/models/lfr.py) is evaluated on those draws, so
the oracle is agnostic to how threads interleave on the shared RNG while any race that corrupts the
statistics, the flags or the bounds cache shows as a wrong decision or an exception.
"""
import hashlib
import itertools
import math

import numpy as np
import scipy.stats

from sim import workload
from sim.core import EndRun, close, np_seed
from sim.models import lfr as L
from sim.models.errdet import Recs
from sim.sched import SimParallelFactory
from sim.seams import rebind, record_np_random

PROP = "C06"
FORKS = True      # snapshot / restore events (core.Ctx.maybe_fork)
LEVEL = "exploration"
RULE = (
    "seeded (y_true,y_pred) histories (30-150 samples, sequential; 30-70 under the thread scheduler) x time_decay_factor x levels x "
    "burn_in x subsample x round_val x every subset of tracked rates x num_mc 5-25, numpy seed schedule owned by the simulator; "
    "sequential and parallelize=True under a seeded baton scheduler (p_switch 0.01-0.3 per line of lfr.py; scenario par_split: per "
    "statement of a copy of lfr.py whose read-modify-write statements are split into load / compute / store lines); after every sample the "
    "state is compared with the specification evaluated on the recorded Monte-Carlo draws (confusion matrix, rates, statistics, "
    "recorded (p, size) arguments, bounds, flags, retraining_recs); separate scenario validates the bounds statistically "
    "(5 sigma bands, 200k independent draws). Non-trivial: >=1 drift and >=1 warning; distinct = digests (thread-switch logs included)."
)
STATE_MEASURE = "distinct (mode, state, tested step?, number of simulations in the step capped at 4, cache hit?) tuples"
WHITE_BOX = ["LinearFourRates._confusion / _r_stat / _p_table (compared when present; decisions do not depend on reading them)",
             "LinearFourRates._sim_bounds (bounds scenario only)"]
STUBS = ["joblib.Parallel / delayed: replaced by one real thread per task under the baton scheduler (a superset of joblib's 2-worker "
         "interleavings at task granularity; joblib's own dispatch code does not run)"]
SIM_TIME_UNIT = "accepted LFR updates (logical time)"
_WARM = {"done": False}


def scenarios(tier):
    k = 1 if tier == "quick" else 8
    # par_split: as par, on a copy of lfr.py in which every read-modify-write of an attribute / item is spread over lines of its
    # own (sim/split.py), so that the line-granular scheduler can pre-empt between a load and its store
    return [("seq", 400 * k), ("par", 160 * k), ("par_split", 160 * k), ("bounds", 48 * (1 if tier == "quick" else 4)), ("long", 24 * k), ("first", 120 * k)]


def gen(rng, scenario, tier):
    if scenario == "bounds":
        return {"cfg": {"p": rng.choice([0.1, 0.3, 0.5, 0.8, 0.95]), "N": rng.choice([2, 5, 20, 60]), "eta": rng.choice([0.5, 0.9, 0.99]),
                        "warning_level": rng.choice([0.05, 0.2]), "detect_level": rng.choice([0.01, 0.1]), "seed": np_seed(rng),
                        "check_seed": rng.randrange(2**31)}, "events": []}
    if scenario == "long":
        # a long epoch of a very accurate classifier: single samples then move a rate by less than 1e-5
        cfg = {"time_decay_factor": rng.choice([0.9, 0.99, 0.999]), "warning_level": 0.05, "detect_level": 0.01, "burn_in": rng.choice([10 ** 6, 10 ** 6, 600, 1300]), "num_mc": 4,
               "subsample": rng.choice([50, 97]), "rates_tracked": ["tpr", "tnr", "ppv", "npv"], "round_val": 4}
        ev = []
        for t in range(rng.randint(700, 2200)):
            yt = 1 if rng.random() < 0.8 else 0
            ev.append([yt, yt if rng.random() < 0.997 else 1 - yt, np_seed(rng)])
        return {"cfg": cfg, "events": ev}
    if scenario == "first":
        # no burn-in, fast decay, wide warning band: warnings can fall on the very first samples (index 0)
        cfg = {"time_decay_factor": rng.choice([0.3, 0.5, 0.7]), "warning_level": rng.choice([0.3, 0.4]), "detect_level": rng.choice([0.01, 0.05]),
               "burn_in": 0, "num_mc": rng.randint(6, 12), "subsample": 1, "rates_tracked": [r for r in L.RATES if rng.random() < 0.7] or ["tpr"],
               "round_val": rng.choice([2, 4])}
        ys, _ = workload.outcomes(rng, rng.randint(8, 40))
        return {"cfg": cfg, "events": [[yt, yp, np_seed(rng)] for yt, yp in ys]}
    wl = rng.choice([0.3, 0.2, 0.1, 0.05])
    tracked = [r for r in L.RATES if rng.random() < 0.7] or [rng.choice(L.RATES)]
    cfg = {"time_decay_factor": rng.choice([0.5, 0.8, 0.9, 0.99]), "warning_level": wl, "detect_level": wl * rng.choice([1, 0.5, 0.2]),
           "burn_in": rng.randint(0, 20), "num_mc": rng.randint(5, 25) if scenario == "seq" else rng.randint(4, 8),
           "subsample": rng.choice([1, 1, 2, 3, 5]), "rates_tracked": tracked, "round_val": rng.choice([1, 2, 4])}
    n = rng.randint(30, 150) if scenario == "seq" else rng.randint(30, 70)
    ys, drifts = workload.outcomes(rng, n)
    case = {"cfg": cfg, "events": [[yt, yp, np_seed(rng)] for yt, yp in ys]}
    if scenario in ("par", "par_split"):
        case["sched"] = {"seed": rng.randrange(2**31), "p_switch": rng.choice([0.01, 0.05, 0.1, 0.3])}
    return case


def run(case, ctx):
    import menelaus.concept_drift.lfr as lm

    if case["scenario"] == "bounds":
        return run_bounds(case, ctx, lm)
    log = []
    with record_np_random(lm, log) as have:
        if not have:
            ctx.note("draws_unverified:seam_missing")
        if case["scenario"] == "par_split":
            from sim.split import load_split

            lm2 = load_split(lm)
            ctx.fault("statements_split_for_preemption", lm2.__split_count__)
            with record_np_random(lm2, log):
                if not _WARM.get("split"):
                    _warm_up(lm2)
                    _WARM["split"] = True
                fac = SimParallelFactory(case["sched"]["seed"], case["sched"]["p_switch"], lm2.__file__)
                with rebind(lm2, Parallel=fac.Parallel, delayed=fac.delayed) as missing:
                    if missing:
                        ctx.note("thread_seam_missing")
                        raise EndRun()
                    body(case, ctx, lm2, log, fac)
        elif case["scenario"] == "par":
            if not _WARM["done"]:
                _warm_up(lm)
                _WARM["done"] = True
            fac = SimParallelFactory(case["sched"]["seed"], case["sched"]["p_switch"], lm.__file__)
            with rebind(lm, Parallel=fac.Parallel, delayed=fac.delayed) as missing:
                if missing:
                    ctx.note("thread_seam_missing")
                    raise EndRun()
                body(case, ctx, lm, log, fac)
        else:
            body(case, ctx, lm, log, None)


def _warm_up(lm):
    """First traced execution in a process differs from later ones (interpreter warm-up): run one throw-away parallel
    update sequence so that every real run starts from a warmed interpreter."""
    fac = SimParallelFactory(1, 0.2, lm.__file__)
    with rebind(lm, Parallel=fac.Parallel, delayed=fac.delayed):
        d = lm.LinearFourRates(num_mc=4, burn_in=1, parallelize=True, round_val=2)
        np.random.seed(1)
        for i in range(6):
            d.update(i % 2, (i // 2) % 2)


def body(case, ctx, lm, log, fac):
    cfg = case["cfg"]
    par = fac is not None
    eta, wl, dl, burn, sub, rv, mc = (cfg["time_decay_factor"], cfg["warning_level"], cfg["detect_level"], cfg["burn_in"],
                                      cfg["subsample"], cfg["round_val"], cfg["num_mc"])
    tracked = cfg["rates_tracked"]
    det = ctx.call("C06:ctor", lm.LinearFourRates, parallelize=par, **cfg)
    C = [[1, 1], [1, 1]]
    R = {k: 0.5 for k in L.RATES}
    n = 0
    cache = []
    recs = Recs("first")
    prev = None
    drifts = warns = 0
    mode = "par" if par else "seq"
    first_sample_warning = False
    for t, (yt, yp, seed) in enumerate(case["events"]):
        ctx.step = t
        det = ctx.maybe_fork(det)
        if prev == "drift":
            C, R, n = [[1, 1], [1, 1]], {k: 0.5 for k in L.RATES}, 0
            recs.start_epoch()
        del log[:]
        np.random.seed(seed)
        ctx.call(f"C06:{mode}:update", det.update, yt, yp)
        ctx.sim_time += 1
        n += 1
        old, _ = L.rates(C)
        C[yp][yt] += 1
        new, den = L.rates(C)
        for k in tracked:
            if new[k] != old[k]:
                R[k] = eta * R[k] + (1 - eta) * (yt == yp)
        # ---- white-box cross-checks of the statistics the property names (skipped when not readable)
        conf = getattr(det, "_confusion", None)
        if conf is not None and np.asarray(conf).tolist() not in (C, [[C[0][0], C[1][0]], [C[0][1], C[1][1]]]):  # either orientation
            ctx.violation("confusion", "C06:confusion", f"sample {t} (n={n}): confusion matrix {np.asarray(conf).tolist()}, epoch's counts with one pseudo-count per cell {C}; cfg={cfg}")
            raise EndRun()
        rs, pt = getattr(det, "_r_stat", None), getattr(det, "_p_table", None)
        for k in tracked:
            if isinstance(rs, dict) and n in rs and not close(rs[n].get(k), R[k], 1e-12):
                ctx.violation("statistic", "C06:r_statistic", f"sample {t} (n={n}): test statistic of {k} is {rs[n].get(k)!r}, specification {R[k]!r}; cfg={cfg}")
                raise EndRun()
            if isinstance(pt, dict) and n in pt and not close(pt[n].get(k), new[k], 1e-12):
                ctx.violation("rate", "C06:rate", f"sample {t} (n={n}): rate {k} is {pt[n].get(k)!r}, confusion matrix gives {new[k]!r}; cfg={cfg}")
                raise EndRun()
        # ---- Monte-Carlo draws made in this step
        sims, problem = L.group_simulations(log, mc, eta, wl, dl)
        if problem:
            ctx.note("draws_unverified:" + problem[:30])
            raise EndRun()
        for p, N, _ in sims:
            if not any(p == float(new[k]) and N == int(den[k]) for k in tracked):
                ctx.violation("simulation", "C06:simulation_arguments",
                              f"sample {t} (n={n}): bounds were simulated for rate {p!r} and denominator {N}, which is no tracked rate's current estimate "
                              f"({ {k: (float(new[k]), int(den[k])) for k in tracked} }); cfg={cfg}")
                raise EndRun()
        cache.extend(sims)
        tested = n > burn and n % sub == 0
        possible = {None}
        margin = float("inf")
        hit = False
        if tested:
            per_rate = []
            for k in tracked:
                cands = [b for p, N, b in sims if p == float(new[k]) and N == int(den[k])]
                if not cands:
                    hit = True
                    tol = 10 ** (-rv) * (1 + 1e-9) + 1e-15   # two rates that round to the same value differ by less than one rounding step
                    cands = [b for p, N, b in cache if N == int(den[k]) and abs(p - float(new[k])) <= tol]
                if not cands:
                    ctx.violation("no_simulation", "C06:decided_without_simulation",
                                  f"sample {t} (n={n}): rate {k}={float(new[k])!r} with denominator {int(den[k])} was tested although bounds were never simulated for it "
                                  f"(nor for a rate within rounding at round_val={rv}); cfg={cfg}")
                    raise EndRun()
                fl = set()
                for b in cands:
                    fl.add(L.flags(R[k], b))
                    margin = min(margin, *(abs(R[k] - b[x]) for x in ("lw", "uw", "ld", "ud")))
                per_rate.append(fl)
            possible = set()
            for combo in itertools.product(*per_rate):
                alarm = any(c[1] for c in combo)
                warn = any(c[0] for c in combo)
                possible.add("drift" if alarm else ("warning" if warn else None))
        got = det.drift_state
        if got not in possible:
            if margin <= 1e-9:
                ctx.near_tie()
            ctx.violation("decision", f"C06:{mode}:decision",
                          f"sample {t} (n={n}, {'tested' if tested else 'not a tested sample'}): detector reports {got!r}, specification on the recorded draws allows {sorted(map(str, possible))}; "
                          f"statistics { {k: round(R[k], 6) for k in tracked} }; cfg={cfg}" + (f"; thread switches so far {fac.switches}" if par else ""))
            raise EndRun()
        exp_recs = recs.step(got, t)
        got_recs = [None if v is None else int(v) for v in list(det.retraining_recs)]
        if got_recs != exp_recs:
            ctx.violation("recs", "C06:recs", f"sample {t}: retraining_recs {got_recs}, specification {exp_recs} (state {got!r}); cfg={cfg}")
            raise EndRun()
        drifts += got == "drift"
        warns += got == "warning"
        if t == 0 and got == "warning":
            first_sample_warning = True
            ctx.probe("warning_on_the_very_first_sample")
        if hit:
            ctx.probe("bounds_taken_from_cache")
        ctx.obs(got, got_recs, len(sims))
        ctx.state(mode, got, tested, min(len(sims), 4), hit)
        prev = got
    if par:
        ctx.obs(fac.logs)
        ctx.fault("thread_preemption_by_scheduler", fac.switches)
        ctx.probe("thread_switches", fac.switches)
        ctx.probe("preemption_points", fac.points)
        ctx.probe("parallel_sections", fac.calls)
        ctx.state("schedule", hashlib.sha1(repr(fac.logs).encode()).hexdigest()[:12])
    ctx.nontrivial = drifts >= 1 and warns >= 1


def run_bounds(case, ctx, lm):
    """Statistical validation of the Monte-Carlo bounds: an independent 200k-draw estimate of the statistic's
    distribution at the returned bounds must be within 5 sigma of the requested levels; orientation exact."""
    c = case["cfg"]
    det = lm.LinearFourRates(time_decay_factor=c["eta"], warning_level=c["warning_level"], detect_level=c["detect_level"], num_mc=2000)
    fn = getattr(det, "_sim_bounds", None)
    if fn is None:
        ctx.note("bounds_unverified:no_sim_bounds")
        return
    np.random.seed(c["seed"])
    b = ctx.call("C06:bounds:sim", fn, c["p"], c["N"])
    ctx.sim_time += 1
    g = np.random.default_rng(c["check_seed"])
    N, eta = c["N"], c["eta"]
    w = np.array([eta ** (N - j) for j in range(1, N + 1)])
    S = (1 - eta) * (g.random((200000, N)) < c["p"]).astype(float) @ w
    for name, level, lo_key, hi_key in (("warning", c["warning_level"], "lb_warn", "ub_warn"), ("detect", c["detect_level"], "lb_detect", "ub_detect")):
        lb, ub = float(b[lo_key]), float(b[hi_key])
        if lb > ub + 1e-12:
            ctx.violation("bounds", "C06:bounds_orientation", f"{name}: lower bound {lb} above upper bound {ub}; {c}")
            raise EndRun()
        # exact binomial test (the normal approximation has too light a tail for a 1 % quantile of 2000 draws): if the true
        # probability of falling beyond the returned bound is f, the number of the 2000 Monte-Carlo draws beyond it is
        # Binomial(2000, f), and by construction of a percentile about 2000*level of them are.  f is estimated from 200k
        # independent draws and moved by 4 of its own standard errors towards `level` before testing.  Alarm below 1e-9.
        n_mc, m = 2000, len(S)
        for side, f_strict, f_weak in (("lower", float(np.mean(S < lb - 1e-12)), float(np.mean(S <= lb + 1e-12))),
                                       ("upper", float(np.mean(S > ub + 1e-12)), float(np.mean(S >= ub - 1e-12)))):
            k = n_mc * level
            se = lambda f: 4 * math.sqrt(max(f * (1 - f), 1e-12) / m)  # noqa: E731
            too_many = scipy.stats.binom.cdf(math.ceil(k) + 1, n_mc, max(0.0, f_strict - se(f_strict)))     # f far above level?
            too_few = scipy.stats.binom.sf(math.floor(k) - 2, n_mc, min(1.0, f_weak + se(f_weak)))          # f far below level?
            if min(too_many, too_few) < 1e-9:
                ctx.violation("bounds", "C06:bounds_level",
                              f"{name} level {level}, {side} bound {lb if side == 'lower' else ub}: the independent estimate puts {f_strict:.4f}..{f_weak:.4f} of the "
                              f"statistic's distribution beyond it (binomial tail probabilities {too_many:.2e} / {too_few:.2e}); p={c['p']} N={N} eta={eta}")
                raise EndRun()
    ctx.obs(round(float(b["lb_detect"]), 9), round(float(b["ub_detect"]), 9))
    ctx.state("bounds", c["p"], c["N"], c["eta"])
    ctx.nontrivial = True


def evidence_extra(all_states):
    sched = {s for s in all_states if s.startswith("schedule/")}
    return {"distinct_thread_schedules": len(sched),
            "schedule_measure": "distinct thread-switch logs (sequence of (from-thread, to-thread) hand-offs over all parallel sections of a run)"}


def truncate(case, step):
    c = dict(case)
    c["events"] = case["events"][: step + 1]
    return c


def shrink(case):
    if case.get("scenario") in ("par", "par_split"):
        c = dict(case)
        c["scenario"] = "seq"   # does it need the scheduler at all?
        c.pop("sched", None)
        yield c


def summarize(case):
    if case["scenario"] == "bounds":
        return {"scenario": "bounds", "cfg": case["cfg"]}
    return {"scenario": case["scenario"], "cfg": case["cfg"], "sched": case.get("sched"), "n_samples": len(case["events"]),
            "first_pairs": [e[:2] for e in case["events"][:12]]}
