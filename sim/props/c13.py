"""C13 - each election returns exactly what its voting rule says for every vote pattern.

ConfirmedElection is a timer machine (per-member wait counters measured in calls); the three
stateless elections ride along on the same scripted member histories.  Members are stubs whose states
follow sticky seeded regimes (bursts of drift, warning-while-waiting, long None) so that members are
really kept waiting.  Coverage of (parameters, counter vector, vote vector) triples is measured against
a BFS over the *model* for the small configurations and reported; exhaustiveness is not claimed.
"""
import numpy as np

from sim.core import EndRun
from sim.models import election as M

PROP = "C13"
FORKS = True      # snapshot / restore events (core.Ctx.maybe_fork)
LEVEL = "exploration"
RULE = (
    "1-6 stub members with sticky seeded state regimes x SimpleMajority / MinimumApproval(a) / OrderedApproval(a,c) / "
    "ConfirmedElection(sensitivity, wait_time) with parameters up to n+1; after every call the verdict (and "
    "ConfirmedElection.wait_period_counters) is compared with the executable voting model; for the stateless rules "
    "every single-member flip to drift is checked for monotonicity. Non-trivial run: some member was kept waiting "
    "while reporting warning, or a verdict changed; distinct = distinct digests."
)
STATE_MEASURE = "distinct (n, sensitivity, wait_time, counter vector, vote vector) triples of ConfirmedElection"
WHITE_BOX = ["ConfirmedElection.wait_period_counters (public attribute)"]
STUBS = ["ensemble members: objects with a scripted drift_state"]
REAL = ["menelaus.ensemble.election (all four elections)"]
STATES = [None, "warning", "drift"]


class Stub:
    def __init__(self):
        self.drift_state = None


def scenarios(tier):
    k = 1 if tier == "quick" else 10
    return [("small", 24000 * k), ("large", 4000 * k)]


def gen(rng, scenario, tier):
    n = rng.randint(1, 3) if scenario == "small" else rng.randint(3, 6)
    cfg = {"n": n, "sensitivity": rng.randint(1, n + 1), "wait_time": rng.randint(0, 2 if scenario == "small" else 4),
           "approvals": rng.randint(1, n + 1), "confirmations": rng.randint(0, n)}
    regime = [rng.choice(STATES) for _ in range(n)]
    stick = rng.choice([0.3, 0.5, 0.8])
    ev = []
    for _ in range(rng.randint(5, 60)):
        for i in range(n):
            if rng.random() > stick:
                regime[i] = rng.choice([None, None, "warning", "drift", "drift"])
        ev.append(list(regime))
    return {"cfg": cfg, "events": ev}


def run(case, ctx):
    from menelaus.ensemble import (ConfirmedElection, MinimumApprovalElection, OrderedApprovalElection,
                                   SimpleMajorityElection)

    cfg = case["cfg"]
    n = cfg["n"]
    # the thresholds are whole numbers; one run in six hands them over as another numeric type of equal value (2.0,
    # numpy.float64(2), numpy.int64(2): what np.ceil(0.5 * n) or a parsed configuration yields)
    as_type = {0: float, 1: np.float64, 2: np.int64}[case["retype"] % 3] if case.get("retype") is not None else int
    conf = ConfirmedElection(as_type(cfg["sensitivity"]), cfg["wait_time"])
    maj, mn = SimpleMajorityElection(), MinimumApprovalElection(as_type(cfg["approvals"]))
    od = OrderedApprovalElection(as_type(cfg["approvals"]), as_type(cfg["confirmations"]))
    if as_type is not int:
        ctx.fault("threshold_as_" + as_type.__name__)
    members = [Stub() for _ in range(n)]
    counters = [0] * n
    prev_verdict = None
    interesting = False
    for t, votes in enumerate(case["events"]):
        ctx.step = t
        conf = ctx.maybe_fork(conf)
        if len(votes) != n:
            raise EndRun()
        for m, v in zip(members, votes):
            m.drift_state = v if v is None else "".join(list(v))   # an equal, but not the identical (interned) string object
        ctx.state(n, cfg["sensitivity"], cfg["wait_time"], tuple(counters), tuple(votes))
        if any(c > 0 and v == "warning" for c, v in zip(counters, votes)):
            ctx.probe("warning_while_waiting")
            interesting = True
        exp, counters = M.confirmed(counters, votes, cfg["sensitivity"], cfg["wait_time"])
        got = ctx.call("C13:confirmed", conf, members)
        ctx.sim_time += 1
        if got != exp:
            ctx.violation("verdict", "C13:confirmed:verdict",
                          f"call {t}: votes {votes}, ConfirmedElection{cfg['sensitivity'], cfg['wait_time']} returned {got!r}, voting rule says {exp!r}")
            raise EndRun()
        wc = list(conf.wait_period_counters)
        if wc != counters or (wc and max(wc) > cfg["wait_time"]):
            ctx.violation("counters", "C13:confirmed:counters",
                          f"call {t}: votes {votes}, wait_period_counters {wc}, model {counters}, wait_time {cfg['wait_time']}")
            raise EndRun()
        nd = votes.count("drift")
        for name, el, want in (("majority", maj, M.simple_majority(votes)),
                               ("minimum", mn, M.minimum_approval(votes, cfg["approvals"])),
                               ("ordered", od, M.ordered_approval(votes, cfg["approvals"], cfg["confirmations"]))):
            g = ctx.call(f"C13:{name}", el, members)
            if g not in ("drift", None):
                ctx.violation("domain", f"C13:{name}:domain", f"returned {g!r}")
            if g != want:
                ctx.violation("verdict", f"C13:{name}:verdict",
                              f"call {t}: votes {votes} ({nd} of {n} drift), {name} with a={cfg['approvals']} c={cfg['confirmations']} returned {g!r}, rule says {want!r}")
                raise EndRun()
            if g == "drift":
                # monotonicity: one more member turning to drift never retracts the verdict
                for i, v in enumerate(votes):
                    if v != "drift":
                        members[i].drift_state = "".join(["dr", "ift"])
                        g2 = ctx.call(f"C13:{name}", el, members)
                        members[i].drift_state = v
                        if g2 != "drift":
                            ctx.violation("monotone", f"C13:{name}:monotone", f"votes {votes}: drift; member {i} -> drift: {g2!r}")
                            raise EndRun()
        if got != prev_verdict:
            interesting = True
        if cfg["wait_time"] > 0 and max(counters) == cfg["wait_time"]:
            ctx.probe("member_in_last_waiting_call")
        prev_verdict = got
        ctx.obs(got, counters)
    ctx.nontrivial = interesting


def truncate(case, step):
    c = dict(case)
    c["events"] = case["events"][: step + 1]
    return c


def evidence_extra(all_states):
    """Measured coverage of ConfirmedElection (counters, votes) pairs against a BFS over the model, for
    the small configurations (n <= 3, wait_time <= 2)."""
    visited = {}
    for s in all_states:
        parts = s.split("/")
        try:
            n, sens, wait = int(parts[0]), int(parts[1]), int(parts[2])
        except ValueError:
            continue
        if n <= 3 and wait <= 2:
            visited.setdefault((n, sens, wait), set()).add((parts[3], parts[4]))
    reach_total = vis_total = 0
    for n in (1, 2, 3):
        for sens in range(1, n + 2):
            for wait in range(0, 3):
                reach = {(str(c), str(v)) for c, v in M.confirmed_reachable(n, sens, wait)}
                reach_total += len(reach)
                vis_total += len(visited.get((n, sens, wait), set()) & reach)
    return {"confirmed_small_configs_reachable_pairs": reach_total, "confirmed_small_configs_visited_pairs": vis_total,
            "confirmed_small_configs_coverage": round(vis_total / max(1, reach_total), 4)}


def summarize(case):
    return {"scenario": case["scenario"], "cfg": case["cfg"], "n_calls": len(case["events"]), "first_votes": case["events"][:5]}
