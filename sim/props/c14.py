"""C14 - uniform input validation; rejected inputs do no harm; containers don't matter.

Fault enumeration: for a seeded valid history H (mixed containers) of a detector, ONE malformed call is
injected at EVERY position and for EVERY applicable malformed-call kind; the run with the fault is
compared with the twin that ran H alone.  What counts as malformed is relative to what accepted inputs
have established: wrong row count (always); a width different from the width of the first accepted
input; column names different from those of the first accepted DataFrame; multi-column data to a
univariate detector; y with several observations.  At position 0 a "wrong width" does not exist.

The malformed call is executed under the numpy seed of the accepted call that follows it: a rejected
call that arrives right after a reported drift may perform the pending restart (the next accepted call
would have done exactly that), and under the seed schedule that restart then sees the same draws.
"""
import numpy as np
import pandas as pd

from sim import adapters, workload
from sim.core import EndRun, approx_same, canon, documented_refusal, np_seed

PROP = "C14"
LEVEL = "fault_enumeration"
RULE = (
    "per detector (14 with base-class validation): seeded valid history H (12-40 calls; batch 5-10 batches) with a seeded mix of "
    "containers (scalar / list / 1-D / 2-D ndarray / Fortran order / Series / DataFrame); for EVERY position of H and EVERY "
    "applicable malformed-call kind (wrong rows as array and as DataFrame, zero rows, width+1, width-1, DataFrame with wrong "
    "width, renamed columns, multi-column to univariate, y_true / y_pred with several observations) one faulted run is compared "
    "with the twin that never saw the fault: ValueError raised, total counter unchanged, nothing but a pending restart "
    "performed, all later outputs identical; plus container equivalence of H against all-ndarray input. evaluations = histories; "
    "the number of faulted runs is reported as fault_counts. Non-trivial history: >=1 fault landed in an open epoch that later "
    "alarmed; distinct = distinct digests."
)
STATE_MEASURE = "distinct (detector, fault kind, position class [0 / before first DataFrame / after], pending restart?) tuples"
WHITE_BOX = ["private running statistics (twin comparison only)"]
SIM_TIME_UNIT = "calls into menelaus over all faulted runs (logical time)"
NAMES = ["a", "b", "c", "d"]
UNIVARIATE = ("ADWIN", "CUSUM", "PageHinkley", "CDBD")
DETS = {"KdqTreeStreaming": 12, "KdqTreeBatch": 12, "PCACD": 10, "ADWIN": 30, "CUSUM": 30, "PageHinkley": 30, "DDM": 24, "EDDM": 24,
        "STEPD": 20, "LinearFourRates": 8, "ADWINAccuracy": 16, "HDDDM": 24, "CDBD": 20, "NNDVI": 14}
HEAVY = ["KdqTreeStreaming", "KdqTreeBatch", "PCACD"]
X_KINDS = ["rows2", "rows2_df", "rows2_df_other_names", "rows0", "width+1", "width-1", "df_width+1", "renamed", "renamed_str", "multicol", "multicol_1d", "multicol_series", "multicol_df"]
Y_KINDS = ["y_true_multi", "y_pred_multi", "y_true_empty", "y_pred_empty"]
B_KINDS = ["rows1", "rows1_df", "rows1_df_other_names", "width+1", "width-1", "df_width+1", "renamed", "renamed_str", "multicol"]
ALL_KINDS = X_KINDS + Y_KINDS + [k for k in B_KINDS if k not in X_KINDS]
ALL_KINDS = ALL_KINDS + ["ref:" + k for k in B_KINDS]   # the same malformed payload handed to set_reference


def scenarios(tier):
    k = 1 if tier == "quick" else 8
    return [(n, v * k) for n, v in DETS.items()]


# --------------------------------------------------------------------------------------------- generation
def gen(rng, scenario, tier):
    name = scenario
    cfg = adapters.sample_cfg(rng, name)
    k = adapters.kind(name)
    if name == "PCACD":
        # window 10 means Page-Hinkley threshold 0 and intersection scores on a 1/10 lattice: with a lattice delta (0.05) the
        # decision "sum > its minimum" is an exact tie decided by 1e-16 noise, which differs between int- and float-typed input
        cfg.update(window_size=10, sample_period=rng.choice([0.1, 0.2]), delta=rng.choice([0.037, 0.013]))
    if name == "KdqTreeStreaming":
        cfg["window_size"] = rng.choice([2, 5, 8])
    if name == "LinearFourRates":
        cfg["num_mc"] = 6
    ev = []
    if k == "batch":
        d = adapters.n_features(rng, name)
        bs, _ = workload.batches(rng, rng.randint(5, 10), d, 6, 20, drift_rate=0.5)
        tags = ["lol", "nd", "ndF", "df"] + (["list1", "nd1", "series"] if d == 1 else [])
        for b in bs:
            ev.append([b, rng.choice(tags), np_seed(rng)])
    elif k == "y":
        ys, _ = workload.outcomes(rng, rng.randint(12, 40), burst=0.1)
        tags = ["scalar", "list", "nd1", "nd2", "series"]
        for y in ys:
            ev.append([y, [rng.choice(tags), rng.choice(tags)], np_seed(rng)])
    elif k == "x":
        knd = rng.choice(["gauss", "ramp"]) if name == "CUSUM" else None
        xs, _ = workload.stream_values(rng, rng.randint(12, 40), kind=knd, drift_rate=0.1)
        tags = ["scalar", "list", "nd1", "nd2", "series", "df"]
        for x in xs:
            ev.append([[x], rng.choice(tags), np_seed(rng)])
    else:
        d = adapters.n_features(rng, name)
        n = rng.randint(28, 40) if name == "PCACD" else rng.randint(12, 28 if name == "KdqTreeStreaming" else 40)
        xs, _ = workload.mv_stream(rng, n, d, drift_rate=0.08)
        if name == "PCACD":
            # a strong level shift right after both windows are full, so that a drift (and the hand-over of the test
            # window) happens inside the history
            for j in range(22, n):
                xs[j] = [v + 25.0 * (abs(xs[0][0]) + 1.0) for v in xs[j]]
        tags = ["list", "nd1", "nd2", "series", "df"]
        for x in xs:
            ev.append([x, rng.choice(tags), np_seed(rng)])
    # integer-typed inputs: some observations / batches are made integral and handed over as Python ints / int64 arrays
    # (the all-ndarray run passes the same values as floats); the first input is integral more often
    if k in ("x", "xx", "batch") and name != "NNDVI":     # (NN-DVI needs >= k distinct rows: rounding could collapse a batch)
        for j, e in enumerate(ev):
            if rng.random() < ((0.5 if k == "xx" else 0.3) if j == 0 else 0.12):
                if k == "batch":
                    e[0] = [[float(round(v)) for v in row] for row in e[0]]
                    e[1] = rng.choice(["nd_int", "lol_int"])
                else:
                    e[0] = [float(round(v)) for v in e[0]]
                    e[1] = rng.choice(["list_int", "nd2_int"] + (["scalar_int"] if k == "x" else []))
    # float32-typed batches: values on a 1/8 grid (exact in float32) handed over as float32 arrays; the first input more often.
    # (Batch detectors only: they pool what they are given with float64 data, so the values decide, not the dtype. Streaming
    # detectors legitimately compute in the dtype they are given - float32 arithmetic gives other digits.)
    if k == "batch":
        for j, e in enumerate(ev):
            if e[1].endswith("_int"):
                continue
            if rng.random() < (0.2 if j == 0 else 0.06):
                if k == "batch":
                    grid = [[round(v * 8) / 8 for v in row] for row in e[0]]
                    if name == "NNDVI" and len({tuple(r) for r in grid}) < 6:
                        continue     # small-scale data collapse to a handful of grid points: outside NN-DVI's domain (k-NN needs k distinct points)
                    e[0] = grid
                    e[1] = "nd_f32"
                else:
                    e[0] = [round(v * 8) / 8 for v in e[0]]
                    e[1] = "nd2_f32"
    case = {"det": name, "cfg": cfg, "events": ev}
    if name in ("PCACD", "LinearFourRates"):
        L = len(ev)
        pos = sorted(set([0, 1, L - 1, L] + rng.sample(range(L + 1), min(8, L))))
        case["positions"] = pos  # slow detectors: a seeded subset of positions (stated in evidence notes)
    case["int_names"] = rng.random() < 0.25
    return case


# --------------------------------------------------------------------------------------------- payloads
def make_x(k, values, tag):
    """Build the container for one valid input. stream: values = one row; batch: list of rows."""
    if k == "batch":
        arr = np.array(values, dtype=float)
        if tag == "nd_int":
            return arr.astype("int64")
        if tag == "nd_f32":
            return arr.astype("float32")
        if tag == "lol_int":
            return [[int(v) for v in r] for r in values]
        if tag == "lol":
            return [list(r) for r in values]
        if tag == "nd":
            return arr.copy()
        if tag == "ndF":
            return np.asfortranarray(arr)
        if tag == "df":
            return pd.DataFrame(arr.copy(), columns=NAMES[: arr.shape[1]])
        flat = [r[0] for r in values]
        if tag == "list1":
            return flat
        if tag == "nd1":
            return np.array(flat, dtype=float)
        return pd.Series(flat, dtype=float)
    row = list(values)
    if tag == "scalar_int":
        return int(row[0])
    if tag == "list_int":
        return [int(v) for v in row]
    if tag == "nd2_int":
        return np.array([row]).astype("int64")
    if tag == "nd2_f32":
        return np.array([row], dtype="float32")
    if tag == "scalar":
        return row[0]
    if tag == "list":
        return row
    if tag == "nd1":
        return np.array(row, dtype=float)
    if tag == "nd2":
        return np.array([row], dtype=float)
    if tag == "series":
        # only DataFrames establish names: a Series' index labels must not matter, so half of the Series (chosen by the value,
        # not by the PRNG) carry labels that no DataFrame of the history uses (wave 10, V06-w10m2)
        other = int(abs(float(row[0])) * 1e6) % 2 == 1
        return pd.Series(row, index=(["u", "v", "w", "z"] if other else NAMES)[: len(row)], dtype=float)
    return pd.DataFrame([row], columns=NAMES[: len(row)], dtype=float)


def make_y(v, tag):
    return {"scalar": v, "list": [v], "nd1": np.array([v]), "nd2": np.array([[v]]), "series": pd.Series([v])}[tag]


def bad_x(k, kind, d, nrows, names_established):
    """Malformed X, or None if the kind does not apply."""
    n = nrows if k == "batch" else 1
    fill = lambda r, c: np.full((r, c), 0.25) + np.arange(r * c).reshape(r, c) * 0.125  # noqa: E731
    cols = NAMES[:d]
    if kind == "rows2" and k != "batch":
        return fill(2, d)
    if kind == "rows2_df" and k != "batch":
        return pd.DataFrame(fill(2, d), columns=cols)
    if kind == "rows2_df_other_names" and k != "batch":
        return pd.DataFrame(fill(2, d), columns=["q", "r", "s", "t"][:d])   # wrong row count AND labels nobody else uses
    if kind == "rows1_df_other_names" and k == "batch":
        return pd.DataFrame(fill(1, d), columns=["q", "r", "s", "t"][:d])
    if kind == "rows0" and k != "batch":
        return np.zeros((0, d))
    if kind == "rows1" and k == "batch":
        return fill(1, d)
    if kind == "rows1_df" and k == "batch":
        return pd.DataFrame(fill(1, d), columns=cols)
    if kind == "width+1":
        return fill(n, d + 1)
    if kind == "width-1" and d > 1:
        return fill(n, d - 1)
    if kind == "df_width+1":
        return pd.DataFrame(fill(n, d + 1), columns=NAMES[: d + 1] if d + 1 <= len(NAMES) else None)
    if kind == "renamed" and names_established:
        return pd.DataFrame(fill(n, d), columns=["q", "r", "s", "t"][:d])
    if kind == "renamed_str" and names_established and not all(isinstance(c, str) for c in cols):
        return pd.DataFrame(fill(n, d), columns=[str(c) for c in cols])      # integer labels 0, 1, .. replaced by the strings "0", "1", ..
    if kind == "multicol":
        return fill(n, 2)
    if kind == "multicol_1d" and k != "batch":
        return [0.25, 0.5]                 # one observation of two variables in a flat container
    if kind == "multicol_series" and k != "batch":
        return pd.Series([0.25, 0.5, 0.75])
    if kind == "multicol_df" and k != "batch":
        return pd.DataFrame([[0.25, 0.5]], columns=NAMES[:2])   # its first label is the one valid DataFrames use
    return None


# --------------------------------------------------------------------------------------------- execution
def _call(det, k, ev, tag_override=None):
    values, tag, seed = ev
    np.random.seed(seed)
    if k == "y":
        tt, tp = tag_override or tag
        det.update(make_y(values[0], tt), make_y(values[1], tp))
    else:
        det.update(make_x(k, values, tag_override or tag))


def _canon_tag(k, name):
    if k == "y":
        return ["scalar", "scalar"]
    if k == "batch":
        return "nd"
    return "nd2"


def _trace(ctx, name, cfg, k, events, canonical=False, raw=None):
    det = ctx.call(f"C14:{name}:ctor", adapters.build, name, cfg)
    out = []
    for i, ev in enumerate(events):
        ctx.step = i
        if k == "batch" and i == 0:
            np.random.seed(ev[2])
            ctx.call(f"C14:{name}:valid_call:{'nd' if canonical else ev[1]}", det.set_reference,
                     make_x(k, ev[0], "nd" if canonical else ev[1]))
        else:
            ctx.call(f"C14:{name}:valid_call:{_canon_tag(k, name) if canonical else ev[1]}", _call, det, k, ev,
                     _canon_tag(k, name) if canonical else None)
        ctx.sim_time += 1
        o = adapters.observe(det)
        if raw is not None:
            raw.append(o)
        out.append(canon(o))
    return out


def _applicable(name, k, pos, events):
    """(kinds, d, nrows, names_established, width_established) at position pos (before event pos)."""
    if k == "y":
        return list(Y_KINDS), 0, 1, False, False
    prefix = events[:pos]
    width_est = len(prefix) > 0
    names_est = any(e[1] == "df" for e in prefix)
    d = len(events[0][0][0]) if k == "batch" else len(events[0][0])
    nrows = len(events[min(pos, len(events) - 1)][0]) if k == "batch" else 1
    kinds = []
    for kind in (B_KINDS if k == "batch" else X_KINDS):
        if kind in ("width+1", "width-1", "df_width+1") and not width_est:
            continue
        if kind in ("renamed", "renamed_str") and not names_est:
            continue
        if kind.startswith("multicol") and (name not in UNIVARIATE or (width_est and kind == "multicol")):
            continue  # (2-D multicol after an accepted input is the same as width+1)
        if bad_x(k, kind, d, nrows, names_est) is None:
            continue
        kinds.append(kind)
    return kinds, d, nrows, names_est, width_est


class _VoidRun(Exception):
    pass


def run_single(ctx, name, cfg, k, events, pos, kind, base):
    try:
        return _run_single(ctx, name, cfg, k, events, pos, kind, base)
    except _VoidRun:
        return False


def _run_single(ctx, name, cfg, k, events, pos, kind, base):
    """H with one malformed call inserted before event `pos`; compares with base (trace of H alone)."""
    sig = f"C14:{name}:{kind}"
    via_ref = kind.startswith("ref:")
    kind = kind[4:] if via_ref else kind
    kinds, d, nrows, names_est, width_est = _applicable(name, k, pos, events)
    det = adapters.build(name, cfg)
    for i, ev in enumerate(events[:pos]):
        if k == "batch" and i == 0:
            np.random.seed(ev[2])
            det.set_reference(make_x(k, ev[0], ev[1]))
        else:
            _call(det, k, ev)
        ctx.sim_time += 1
    if k == "batch" and pos == 0:
        return  # the first call of a batch history is set_reference; faults on it are covered from position 1 on
    before = adapters.observe(det)
    pending = before["state"] == "drift" or (name in ("ADWIN", "ADWINAccuracy") and before["state"] is not None)
    seed = events[pos][2] if pos < len(events) else 12345
    np.random.seed(seed)
    known_gap = False
    try:
        if k == "y":
            yt, yp = (1, 0)
            if kind == "y_true_multi":
                det.update([1, 0], yp)
            elif kind == "y_pred_multi":
                det.update(yt, np.array([1, 0, 1]))
            elif kind == "y_true_empty":
                det.update([], yp)                      # zero observations is not "one observation" either
            else:
                det.update(yt, np.array([]))
        elif via_ref:
            det.set_reference(bad_x(k, kind, d, nrows, names_est))
        else:
            det.update(bad_x(k, kind, d, nrows, names_est))
        raised = None
    except ValueError:
        raised = "ValueError"
    except Exception as e:  # noqa: BLE001
        raised = type(e).__name__
    ctx.sim_time += 1
    ctx.fault(("ref:" if via_ref else "") + kind)
    if via_ref:
        pending = False   # set_reference performs no pending restart: nothing at all may move
    where = f"{kind} {'handed to set_reference' if via_ref else 'injected'} before call {pos} of {len(events)} ({'after' if names_est else 'before'} the first DataFrame, width established: {width_est}, restart pending: {pending})"
    gap = k == "batch" and kind == "df_width+1" and not names_est

    def fail(vkind, suffix, msg):
        if gap:
            # the batch base class lets a DataFrame of another width through after array input (the repository's own
            # test_batch_validation_X_dimensions asserts it); what happens then - silently used, or an error from deep
            # inside numpy after the counters moved - depends on the detector. One listed known finding covers it.
            ctx.violation("accepted", "C14:batch:df_wrong_width_after_arrays",
                          f"a DataFrame with {d + 1} columns passes validation although arrays had established {d}: " + msg)
            raise _VoidRun()
        ctx.violation(vkind, sig + suffix, msg + f"; cfg={cfg}")
        raise EndRun()

    if raised is None:
        fail("accepted", ":accepted", f"{name}: {where}: the malformed call was accepted (no exception)")
    if raised != "ValueError":
        fail("wrong_exception", f":raised_{raised}", f"{name}: {where}: raised {raised} instead of ValueError")
    after = adapters.observe(det)
    proxy = 1 if (pending and name in ("HDDDM", "CDBD") and cfg.get("detect_batch") == 1) else 0
    if after["total"] - before["total"] not in (0, proxy):  # (a performed pending restart of detect_batch=1 counts its proxy batch)
        fail("counted", ":counted", f"{name}: {where}: the rejected call moved the total counter {before['total']} -> {after['total']}")
    if not pending and canon(after) != canon(before):
        key = next(x for x in after if canon(after[x]) != canon(before.get(x)))
        fail("state_moved", f":moved:{key}",
             f"{name}: {where}: the rejected call changed {key}: {str(before.get(key))[:80]} -> {str(after[key])[:80]}")
    if pending:
        ctx.probe("fault_while_restart_pending")
    alarmed_later = False
    for i, ev in enumerate(events[pos:], pos):
        try:
            _call(det, k, ev)
        except Exception as e:  # noqa: BLE001
            if documented_refusal(e):
                raise _VoidRun()
            fail("later_call_failed", ":later_call_rejected",
                 f"{name}: {where}: the valid call {i} ({ev[1]}) that follows now raises {type(e).__name__}: {str(e)[:120]}")
        ctx.sim_time += 1
        got = canon(adapters.observe(det))
        if got != base[i]:
            fail("later_differs", ":later_output_differs",
                 f"{name}: {where}: output of valid call {i} differs from the run that never saw the fault: {got[:200]} vs {base[i][:200]}")
        alarmed_later |= '"drift"' in got or "'drift'" in got
    ctx.state(name, kind, 0 if pos == 0 else (2 if names_est else 1), pending)
    return alarmed_later


def run(case, ctx):
    # one history in four labels its DataFrame columns 0, 1, 2, .. (a frame built over an array) instead of "a", "b", ..
    keep = list(NAMES)
    NAMES[:] = [0, 1, 2, 3] if case.get("int_names") else ["a", "b", "c", "d"]
    try:
        _run(case, ctx)
    finally:
        NAMES[:] = keep


def _run(case, ctx):
    name, cfg, events = case["det"], case["cfg"], case["events"]
    k = adapters.kind(name)
    raw_b = []
    base = _trace(ctx, name, cfg, k, events, raw=raw_b)
    if "fault" in case:  # minimised single-fault form
        pos, kind = case["fault"]
        ctx.step = pos * 16 + ALL_KINDS.index(kind)
        run_single(ctx, name, cfg, k, events, min(pos, len(events)), kind, base)
        return
    # container equivalence: the same values as plain ndarrays
    raw_c = []
    canonical = _trace(ctx, name, cfg, k, events, canonical=True, raw=raw_c)
    for i, (a, b) in enumerate(zip(base, canonical)):
        if a != b and not approx_same(raw_b[i], raw_c[i]):
            ctx.step = i
            ctx.violation("containers", f"C14:{name}:container_equivalence",
                          f"call {i}: outputs with containers {[e[1] for e in events[: i + 1]][-3:]} differ from the all-ndarray run: {a[:160]} vs {b[:160]}; cfg={cfg}")
            raise EndRun()
    for e in events:
        ctx.note("container:" + (e[1] if isinstance(e[1], str) else "+".join(e[1])))
    hit = False
    positions = case.get("positions") or range(len(events) + 1)
    if case.get("positions"):
        after_drift = [i + 1 for i, t in enumerate(base) if "drift" in t]
        positions = sorted(set(positions) | set(after_drift))
    for pos in positions:
        kinds = _applicable(name, k, pos, events)[0]
        if k == "batch":
            kinds = kinds + ["ref:" + x for x in kinds]
        for kind in kinds:
            ctx.step = pos * 16 + ALL_KINDS.index(kind)
            r = run_single(ctx, name, cfg, k, events, pos, kind, base)
            hit |= bool(r)
    ctx.obs(base[-1] if base else None, len(events))
    ctx.nontrivial = hit


# --------------------------------------------------------------------------------------------- minimisation
def truncate(case, step):
    if "fault" in case:
        return None
    pos, kidx = divmod(step, 16)
    c = dict(case)
    c["fault"] = [pos, ALL_KINDS[kidx]]
    c.pop("positions", None)
    return c


EVENTS_KEY = "events_for_ddmin"  # generic ddmin is not used: positions are part of the fault


def shrink(case):
    if "fault" not in case:
        return
    pos, kind = case["fault"]
    ev = case["events"]
    # drop events after the fault from the end, then events before it
    for cut in (len(ev) - 1, (len(ev) + pos) // 2 + 1):
        if pos < cut < len(ev):
            c = dict(case)
            c["events"] = ev[:cut]
            yield c
    for i in range(len(ev) - 1, pos, -1):
        c = dict(case)
        c["events"] = ev[:i] + ev[i + 1:]
        yield c
    first = 1 if adapters.kind(case["det"]) == "batch" else 0
    for i in range(first, pos):
        c = dict(case)
        c["events"] = ev[:i] + ev[i + 1:]
        c["fault"] = [pos - 1, kind]
        yield c


def summarize(case):
    ev = case["events"]
    return {"detector": case["det"], "cfg": case["cfg"], "n_calls": len(ev),
            "containers": [e[1] for e in ev[:20]], "fault_positions": "every position x every applicable kind"
            if "positions" not in case else case["positions"]}
