"""C09 - kdq-tree detectors alarm exactly when leaf divergence exceeds a bootstrap bound.

The random part (bootstrap critical value) is not re-drawn by the model: the simulator rebinds the
module-global `np` of menelaus.data_drift.kdq_tree to a recording proxy (seam), runs the detector under
its numpy seed schedule, and recomputes the critical value from the draws the code actually made.
Leaf counts come from an independent re-statement of the build rule (sim/models/kdq.py).  Streaming:
phase machine (collect window -> build -> accumulate test counts -> silent until window_size test
samples -> in-a-row exceedance counter -> drift -> start over).  Workloads alternate far / near bursts
so that the divergence crosses the critical value repeatedly in both directions.
"""
import numpy as np

from sim import workload
from sim.core import EndRun, approx_same, close, np_seed
from sim.models import kdq as K
from sim.seams import record_np_random

PROP = "C09"
FORKS = True      # snapshot / restore events (core.Ctx.maybe_fork)
LEVEL = "exploration"
RULE = (
    "KdqTreeBatch: seeded batch histories (5-14 batches of 10-80 rows, 1-3 dims, drift batches, with / without explicit "
    "reference, explicit set_reference mid-stream) x alpha x bootstrap_samples x count_ubound; KdqTreeStreaming: seeded streams "
    "(80-420 samples) alternating far / near bursts sized around persistence*window x window_size x persistence x alpha; numpy "
    "seed schedule owned by the simulator, bootstrap draws recorded at the np.random seam; after every call the decision is "
    "compared with KL(leaf distributions) > critical value recomputed from the recorded draws. Non-trivial: >=2 drifts, or an "
    "exceedance run broken before the limit; distinct = digests."
)
STATE_MEASURE = "distinct (detector, phase, state, exceedance-run bucket) tuples"
WHITE_BOX = ["KdqTree*._test_dist / _critical_dist (compared with the model's values when present; decisions do not depend on reading them)"]
STUBS = []
TIE = 1e-10


def _sensitive_pairs():
    out = []
    for w in range(10, 61):
        for c in range(1, 100):
            p = c / 100
            for r in range(1, w + 1):
                if (r > p * w) != (r / w > p):
                    out.append((w, p))
                    break
    return out


_SENSITIVE = _sensitive_pairs() or [(20, 0.2)]


def scenarios(tier):
    k = 1 if tier == "quick" else 10
    return [("batch", 330 * k), ("stream", 300 * k)]


def gen(rng, scenario, tier):
    if scenario == "batch":
        d = rng.randint(1, 3)
        cfg = {"alpha": rng.choice([0.01, 0.05, 0.2, 0.4, 0.7]), "bootstrap_samples": rng.randint(5, 30), "count_ubound": rng.randint(2, 12),
               "cutpoint_proportion_lbound": rng.choice([2e-10, 2e-10, 0.1])}
        bs, drifts = workload.batches(rng, rng.randint(5, 14), d, 10, 80, drift_rate=rng.choice([0.2, 0.4]),
                                      dup=rng.choice([0, 0, 0.2]), integer=rng.random() < 0.15, regimes=("offset", "tiny", "lattice"))
        ev = []
        if rng.random() < 0.7:
            ev.append(["ref", bs[0], np_seed(rng)])
            bs = bs[1:]
        for b in bs:
            if rng.random() < 0.06:
                ev.append(["ref", b, np_seed(rng)])
            else:
                ev.append(["u", b, np_seed(rng)])
        return {"cfg": cfg, "events": ev, "drift_positions": drifts}
    d = rng.randint(1, 2)
    w = rng.randint(6, 25)
    pers = rng.choice([0.05, 0.1, 0.2, 0.4])
    if rng.random() < 0.3:
        # pairs for which "run > persistence * window" and "run / window > persistence" round differently
        w, pers = rng.choice(_SENSITIVE)
    cfg = {"window_size": w, "persistence": pers, "alpha": rng.choice([0.05, 0.2, 0.4, 0.7]), "bootstrap_samples": rng.randint(5, 20),
           "count_ubound": rng.randint(2, 6)}
    ev = []
    mu = 0.0
    burst_left = 0
    far = 0.0
    for t in range(rng.randint(80, 420)):
        if burst_left <= 0 and rng.random() < 0.05:
            # far / near bursts sized around the persistence limit, so exceedance runs break just short of / beyond it
            lim = max(1, int(pers * w))
            burst_left = rng.choice([lim - 1, lim, lim + 1, lim + 2, 2 * w, 3 * w])
            far = rng.choice([2.5, -2.5, 4.0])
        x = [round(rng.gauss((far if burst_left > 0 else mu), 1), 3) for _ in range(d)]
        burst_left -= 1
        ev.append(["u", x, np_seed(rng)])
    rows, reg = workload.apply_regime(rng, [e[1] for e in ev], ("offset", "tiny", "lattice"), p=0.25)
    ev = [[e[0], r, e[2]] for e, r in zip(ev, rows)]
    # observations whose values happen to be whole numbers arrive integer-typed (a reader that yields ints for "3" and floats for
    # "3.5"); without the lattice regime the very first observation is made whole on purpose in some runs
    int_typed = rng.random() < (0.6 if reg == "lattice" else 0.2)
    if int_typed and reg is None:
        ev[0][1] = [float(round(v)) for v in ev[0][1]]
    return {"cfg": cfg, "events": ev, "regime": reg, "int_typed": int_typed}


def critical_from_log(ctx, calls, ref_counts, n, alpha, B, what):
    """Critical value recomputed from the recorded np.random.choice calls, or None if nothing usable was
    recorded.  Checks the calls' arguments against the documented procedure."""
    calls = [c for c in calls if c[0] == "choice"]
    if not calls:
        ctx.note("bootstrap_unverified:no_calls_recorded")
        return None
    p_ref = np.sort(K.distn(ref_counts))
    ds = []
    for c in calls:
        kw = dict(c[2])
        p = kw.get("p", c[1][3] if len(c[1]) > 3 else None)
        size = kw.get("size", c[1][1] if len(c[1]) > 1 else None)
        if p is None or size is None:
            ctx.note("bootstrap_unverified:unexpected_call_shape")
            return None
        if len(p) != len(p_ref) or not np.allclose(np.sort(np.asarray(p, dtype=float)), p_ref, rtol=1e-9, atol=1e-12):
            ctx.violation("bootstrap", "C09:bootstrap_distribution",
                          f"{what}: bootstrap samples are drawn from {np.round(np.asarray(p, dtype=float), 4).tolist()[:8]}.., the corrected reference leaf distribution is {np.round(K.distn(ref_counts), 4).tolist()[:8]}..")
            raise EndRun()
        s = np.asarray(c[4])
        if size == 2 * n:
            h1 = np.bincount(s[:n], minlength=len(p_ref))
            h2 = np.bincount(s[n:], minlength=len(p_ref))
            ds.append(K.kl(K.distn(h1.astype(float)), K.distn(h2.astype(float))))
        else:
            ctx.violation("bootstrap", "C09:bootstrap_sample_size",
                          f"{what}: bootstrap draws {size} leaf indices per replicate; two samples of the reference size {n} need {2 * n}")
            raise EndRun()
    if len(ds) != B:
        ctx.violation("bootstrap", "C09:bootstrap_count", f"{what}: {len(ds)} bootstrap replicates drawn, bootstrap_samples={B}")
        raise EndRun()
    return float(np.quantile(ds, 1 - alpha, method="nearest"))


def _cmp_private(ctx, det, attr, want, what):
    have = getattr(det, attr, None)
    if have is None or want is None:
        return
    if not close(have, want, 1e-9):
        ctx.violation("statistic", f"C09:{attr}", f"{what}: detector.{attr}={float(have)!r}, model {want!r}")
        raise EndRun()


def run(case, ctx):
    import menelaus.data_drift.kdq_tree as km

    log = []
    with record_np_random(km, log) as have_seam:
        if not have_seam:
            ctx.note("bootstrap_unverified:seam_missing")
        (run_batch if case["scenario"] == "batch" else run_stream)(case, ctx, log, km)


def run_batch(case, ctx, log, km):
    cfg = case["cfg"]
    det = ctx.call("C09:batch:ctor", km.KdqTreeBatch, **cfg)
    st = {"ref": None, "tree": None, "crit": None}
    pending = None
    drifts = 0
    last_drift = None

    def adopt(reference, i):
        st["ref"] = reference
        st["tree"] = K.build_tree(reference, cfg["count_ubound"], cfg["cutpoint_proportion_lbound"])
        rc = K.leaf_counts(st["tree"][0], st["tree"][1], reference)
        crit = critical_from_log(ctx, log, rc, len(reference), cfg["alpha"], cfg["bootstrap_samples"], f"call {i}")
        if crit is None and getattr(det, "_critical_dist", None) is not None:
            crit = float(det._critical_dist)
        st["crit"] = crit
        _cmp_private(ctx, det, "_critical_dist", crit, f"call {i}")

    for i, (op, rows, seed) in enumerate(case["events"]):
        ctx.step = i
        det = ctx.maybe_fork(det)
        X = np.array(rows, dtype=float)
        del log[:]
        np.random.seed(seed)
        if op == "ref":
            ctx.call("C09:batch:set_reference", det.set_reference, X.copy())
            ctx.fault("explicit_set_reference")
            pending = None
            adopt(X, i)
            ctx.obs(op, det.drift_state)
            ctx.state("batch", "reference", det.drift_state, 0)
            continue
        ctx.call("C09:batch:update", det.update, X.copy())
        ctx.sim_time += 1
        if pending is not None:
            adopt(pending, i)          # the drifted batch becomes the reference inside this call
            pending = None
        elif st["ref"] is None:
            adopt(X, i)                # no reference yet: this batch becomes it
            if det.drift_state is not None:
                ctx.violation("decision", "C09:batch:alarm_on_reference", f"call {i}: {det.drift_state!r} on the batch that became the reference")
                raise EndRun()
            ctx.obs(op, det.drift_state)
            ctx.state("batch", "became_reference", det.drift_state, 0)
            continue
        elif any(c[0] == "choice" for c in log):
            ctx.violation("bootstrap", "C09:batch:unexpected_bootstrap", f"call {i}: a new critical value was drawn although the reference did not change")
            raise EndRun()
        ref, (root, leaves), crit = st["ref"], st["tree"], st["crit"]
        rc = K.leaf_counts(root, leaves, ref)
        tc = K.leaf_counts(root, leaves, X)
        div = K.kl(K.distn(rc), K.distn(tc))
        _cmp_private(ctx, det, "_test_dist", div, f"call {i}")
        got = det.drift_state == "drift"
        if det.drift_state not in (None, "drift"):
            ctx.violation("decision", "C09:batch:state_value", f"drift_state={det.drift_state!r}")
        if crit is None:
            ctx.note("decisions_unverified")
        else:
            exp = div > crit
            if got != exp:
                if abs(div - crit) <= TIE * max(1.0, abs(crit)):
                    ctx.near_tie()
                ctx.violation("decision", "C09:batch:decision",
                              f"call {i}: leaf divergence {div!r} vs critical value {crit!r} (alpha={cfg['alpha']}): expected drift={exp}, detector reports "
                              f"{det.drift_state!r}; {len(ref)} reference rows, {len(X)} test rows, {len(leaves)} leaves")
                raise EndRun()
        if i % 3 == 0 and hasattr(det, "to_plotly_dataframe"):
            # the public node table: total counts per tree, and the same table when column labels are supplied for the node names
            cols = [f"col{j}" for j in range(X.shape[1])]
            d0 = ctx.call("C09:batch:to_plotly_dataframe", det.to_plotly_dataframe, "build", "test")
            d1 = ctx.call("C09:batch:to_plotly_dataframe", det.to_plotly_dataframe, "build", "test", None, cols)
            num = [c for c in ("idx", "parent_idx", "cell_count", "depth", "count_diff", "kss") if c in d0.columns]
            same = list(d0.columns) == list(d1.columns) and len(d0) == len(d1) and all(
                approx_same(d0[c].tolist(), d1[c].tolist()) for c in num)
            rootrow = d0[d0["depth"] == 0]
            if not same or len(rootrow) != 1 or int(rootrow["cell_count"].iloc[0]) != len(ref) or \
                    int(rootrow["cell_count"].iloc[0] + rootrow["count_diff"].iloc[0]) != len(X):
                ctx.violation("plotly", "C09:batch:plotly_table",
                              f"call {i}: to_plotly_dataframe('build','test') root row {rootrow.to_dict('records')} for {len(ref)} reference / {len(X)} test rows; "
                              f"same numbers with input_cols: {same}")
                raise EndRun()
            ctx.probe("node_table_with_input_cols")
        if got:
            drifts += 1
            pending = X
            if last_drift == i - 1:
                ctx.probe("batch_drift_twice_in_a_row")
            last_drift = i
        ctx.obs(op, det.drift_state, round(div, 10))
        ctx.state("batch", "test", det.drift_state, 0)
    ctx.nontrivial = drifts >= 2


def run_stream(case, ctx, log, km):
    cfg = case["cfg"]
    w, pers = cfg["window_size"], cfg["persistence"]
    det = ctx.call("C09:stream:ctor", km.KdqTreeStreaming, **cfg)
    phase, refbuf = "ref", []
    tree = rc = tc = crit = None
    ntest = run_len = 0
    drifts = broken = 0
    prev = None
    prop_lb = 2e-10
    for i, (op, row, seed) in enumerate(case["events"]):
        ctx.step = i
        det = ctx.maybe_fork(det)
        x = np.array([row], dtype=float)
        if prev == "drift":
            phase, refbuf = "ref", []
        del log[:]
        np.random.seed(seed)
        if case.get("int_typed") and all(float(v).is_integer() and abs(v) < 2**40 for v in row):
            ctx.fault("integer_typed_observation")
            ctx.call("C09:stream:update", det.update, x.astype(np.int64))
        else:
            ctx.call("C09:stream:update", det.update, x.copy())
        ctx.sim_time += 1
        exp = None
        div = None
        if phase == "ref":
            refbuf.append(row)
            if len(refbuf) == w:
                ref = np.array(refbuf, dtype=float)
                tree = K.build_tree(ref, cfg["count_ubound"], prop_lb)
                rc = K.leaf_counts(tree[0], tree[1], ref)
                crit = critical_from_log(ctx, log, rc, w, cfg["alpha"], cfg["bootstrap_samples"], f"sample {i}")
                if crit is None and getattr(det, "_critical_dist", None) is not None:
                    crit = float(det._critical_dist)
                _cmp_private(ctx, det, "_critical_dist", crit, f"sample {i}")
                tc = np.zeros(len(tree[1]))
                ntest = run_len = 0
                phase = "test"
        else:
            j = K.leaf_index(tree[0], tree[1], x[0])
            tc[j] += 1
            ntest += 1
            if ntest >= w:
                div = K.kl(K.distn(rc), K.distn(tc))
                _cmp_private(ctx, det, "_test_dist", div, f"sample {i}")
                if crit is not None:
                    if abs(div - crit) <= TIE * max(1.0, abs(crit)):
                        ctx.near_tie()
                    if div > crit:
                        run_len += 1
                        if run_len > pers * w:
                            exp = "drift"
                    else:
                        if run_len > 0:
                            broken += 1
                            if run_len + 1 > pers * w:
                                ctx.probe("exceedance_run_broken_one_short_of_the_limit")
                        run_len = 0
        got = det.drift_state
        if crit is None and phase == "test" and ntest >= w:
            ctx.note("decisions_unverified")
        elif got != exp:
            ctx.violation("decision", "C09:stream:decision",
                          f"sample {i} (phase {phase}, {ntest} test samples, window {w}, exceedance run {run_len}, limit {pers * w}, divergence {div!r}, critical {crit!r}): "
                          f"expected {exp!r}, detector reports {got!r}; cfg={cfg}")
            raise EndRun()
        if exp == "drift":
            drifts += 1
            if run_len == int(pers * w) + 1:
                ctx.probe("drift_exactly_at_the_limit")
        ctx.obs(got, phase, None if div is None else round(div, 10))
        ctx.state("stream", phase, got, min(run_len, 6))
        prev = got
    ctx.nontrivial = drifts >= 2 or broken >= 1
    if broken:
        ctx.probe("exceedance_run_broken", broken)


def truncate(case, step):
    c = dict(case)
    c["events"] = case["events"][: step + 1]
    return c


def summarize(case):
    ev = case["events"]
    if case["scenario"] == "batch":
        return {"scenario": "batch", "cfg": case["cfg"], "ops": "".join("S" if e[0] == "ref" else "u" for e in ev),
                "batch_sizes": [len(e[1]) for e in ev]}
    return {"scenario": "stream", "cfg": case["cfg"], "n_samples": len(ev), "first_samples": [e[1] for e in ev[:6]]}
