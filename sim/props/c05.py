"""C05 - DDM, EDDM and STEPD decide from the error sequence exactly as specified.

Degenerate simulation target (deterministic sequential state machines): the simulator contributes
seeded multi-epoch outcome histories, the executable specification as oracle, replay and
minimisation.  No schedule dimension exists and none is claimed.
"""
from sim.core import EndRun, close
from sim.models.errdet import Recs, ddm_spec, eddm_spec, stepd_spec
from sim import workload

PROP = "C05"
FORKS = True      # snapshot / restore events (core.Ctx.maybe_fork)
LEVEL = "exploration"
RULE = (
    "seeded piecewise-stationary (y_true,y_pred) histories (lengths 20-400, plus short binary "
    "prefixes of length 4-16; plus STEPD with levels down to 1e-300 on collapse histories; plus - index-derived, not random - every agreement sequence of length 1-9 (thorough: 1-13) for "
    "two small configurations per detector) x randomised n_threshold/window and thresholds for DDM, EDDM, STEPD; "
    "after every update state and retraining_recs are compared with the from-scratch executable "
    "specification of the current epoch. A run is non-trivial if it contains >=1 drift and reaches "
    "a second epoch; distinct = distinct trace digests among those."
)
STATE_MEASURE = "distinct (detector, state, previous state, epoch index capped at 4) tuples"
WHITE_BOX = []
TOL = 1e-9


def scenarios(tier):
    k = 1 if tier == "quick" else 12
    # "enum": index-derived (not random) enumeration of ALL agreement sequences of length 1..ENUM_N for a few small
    # configurations per detector - the property's own quantifier for short sequences; supplementary to the seeded search
    # "marathon": epochs of thousands of samples (whatever is compacted, capped or re-synchronised after ~1000 updates only shows
    # there), then a slow decline of the accuracy
    return [("ddm", 500 * k), ("eddm", 500 * k), ("stepd", 350 * k), ("short", 600 * k), ("stepd_tiny", 160 * k), ("marathon", 16 if tier == "quick" else 48),
            ("enum", ENUM_TOTAL if tier == "quick" else ENUM_TOTAL_THOROUGH)]


HEAVY = ["marathon"]


ENUM_CFGS = [
    {"det": "ddm", "n_threshold": 1, "warning_scale": 2.0, "drift_scale": 3.0}, {"det": "ddm", "n_threshold": 3, "warning_scale": 1.0, "drift_scale": 1.5},
    {"det": "eddm", "n_threshold": 1, "warning_thresh": 0.95, "drift_thresh": 0.9}, {"det": "eddm", "n_threshold": 3, "warning_thresh": 0.95, "drift_thresh": 0.8},
    {"det": "stepd", "window_size": 1, "alpha_warning": 0.3, "alpha_drift": 0.1}, {"det": "stepd", "window_size": 2, "alpha_warning": 0.2, "alpha_drift": 0.05},
]
ENUM_N = 9
ENUM_SEQS = 2 ** (ENUM_N + 1) - 2              # all non-empty sequences up to length ENUM_N
ENUM_TOTAL = ENUM_SEQS * len(ENUM_CFGS)
ENUM_N_THOROUGH = 13
ENUM_TOTAL_THOROUGH = (2 ** (ENUM_N_THOROUGH + 1) - 2) * len(ENUM_CFGS)


def _enum_case(i):
    cfg = ENUM_CFGS[i % len(ENUM_CFGS)]
    j = i // len(ENUM_CFGS) + 2                  # j = 2.. : binary representation without its leading 1 is the sequence
    bits = bin(j)[3:]
    return {"cfg": dict(cfg), "events": [[1, 1 if b == "1" else 0] for b in bits]}


def _cfg(rng, det):
    inverted = rng.random() < 0.15   # legal but unusual: the warning threshold is stricter than the drift threshold
    if det == "ddm":
        ws = rng.choice([1.0, 1.5, 2.0, 2.5])
        ds = ws + rng.choice([0, 0.5, 1.0, 2.0])
        if inverted:
            ws, ds = ds + 0.5, ws
        return {"det": det, "n_threshold": rng.randint(1, 30), "warning_scale": ws, "drift_scale": ds}
    if det == "eddm":
        wt = rng.choice([0.99, 0.95, 0.9])
        dt = round(wt - rng.choice([0, 0.05, 0.1, 0.3]), 4)
        if inverted:
            wt, dt = rng.choice([0.0, 0.5, dt - 0.1]), wt
        return {"det": det, "n_threshold": rng.randint(1, 15), "warning_thresh": round(wt, 4), "drift_thresh": dt}
    aw = rng.choice([0.8, 0.6, 0.3, 0.2, 0.1, 0.05])
    ad = round(aw * rng.choice([1, 0.5, 0.06]), 6)
    if inverted:
        aw, ad = ad, aw
    return {"det": det, "window_size": rng.randint(1, 20), "alpha_warning": aw, "alpha_drift": ad}


def gen(rng, scenario, tier):
    if scenario == "marathon":
        det = rng.choice(["stepd", "stepd", "ddm", "eddm"])
        cfg = _cfg(rng, det)
        if det == "stepd":
            cfg.update(window_size=rng.randint(20, 60), alpha_warning=rng.choice([0.01, 0.003]), alpha_drift=rng.choice([1e-4, 1e-5]))
        elif det == "ddm":
            cfg.update(n_threshold=30, warning_scale=2.5, drift_scale=rng.choice([3.5, 4.0]))
        else:
            cfg.update(n_threshold=30, warning_thresh=0.9, drift_thresh=rng.choice([0.8, 0.75]))
        quiet, ramp = rng.randint(2400, 3300), rng.randint(200, 400)
        a0, a1 = rng.choice([0.95, 0.9]), rng.choice([0.55, 0.4])
        ev = []
        for i in range(quiet + ramp + 150):
            acc = a0 if i < quiet else max(a1, a0 - (a0 - a1) * (i - quiet) / ramp)
            yt = rng.randint(0, 1)
            ev.append([yt, yt if rng.random() < acc else 1 - yt])
        return {"cfg": cfg, "events": ev, "one_pass": True, "drift_positions": [quiet]}
    if scenario == "short":
        det = rng.choice(["ddm", "eddm", "stepd"])
        cfg = _cfg(rng, det)
        for k in ("n_threshold", "window_size"):
            if k in cfg:
                cfg[k] = rng.randint(1, 4)
        n = rng.randint(4, 16)
        p = rng.choice([0.2, 0.5, 0.8])
        ev = []
        for _ in range(n):
            yt = rng.randint(0, 1)
            ev.append([yt, yt if rng.random() < p else 1 - yt])
        return {"cfg": cfg, "events": ev}
    if scenario == "stepd_tiny":
        # levels so small that the p-value lattice near 0 (multiples of 2**-53) decides: after a long accurate phase the
        # accuracy collapses, the statistic passes ~8.3 and 1 - Phi(T) becomes exactly 0, which is below any positive level
        w = rng.randint(30, 70)
        ad = rng.choice([5e-17, 1e-17, 1e-20, 1e-300, 2e-16, 1e-15, 1e-12])
        aw = rng.choice([0.05, 1e-3, ad * 4, ad])
        good, bad = rng.randint(2 * w, 5 * w), rng.randint(w, 2 * w)
        acc_good, acc_bad = rng.choice([0.99, 0.97, 0.95]), rng.choice([0.0, 0.02, 0.1])
        ev = []
        for i in range(good + bad + rng.randint(0, w)):
            yt = rng.randint(0, 1)
            ok = rng.random() < (acc_good if i < good or i >= good + bad else acc_bad)
            ev.append([yt, yt if ok else 1 - yt])
        return {"cfg": {"det": "stepd", "window_size": w, "alpha_warning": aw, "alpha_drift": ad}, "events": ev}
    cfg = _cfg(rng, scenario)
    ev, _ = workload.outcomes(rng, rng.randint(20, 400))
    return {"cfg": cfg, "events": ev}


INDEXED_SCENARIOS = ("enum",)


def gen_indexed(scenario, i, tier):
    return _enum_case(i)


def build(cfg):
    from menelaus.concept_drift import DDM, EDDM, STEPD

    kw = {k: v for k, v in cfg.items() if k != "det"}
    return {"ddm": DDM, "eddm": EDDM, "stepd": STEPD}[cfg["det"]](**kw)


def spec_for(cfg):
    if cfg["det"] == "ddm":
        return lambda e: ddm_spec(e, cfg["n_threshold"], cfg["warning_scale"], cfg["drift_scale"])
    if cfg["det"] == "eddm":
        return lambda e: eddm_spec(e, cfg["n_threshold"], cfg["warning_thresh"], cfg["drift_thresh"])
    return lambda e: stepd_spec(e, cfg["window_size"], cfg["alpha_warning"], cfg["alpha_drift"])


def run(case, ctx):
    cfg = case["cfg"]
    name = cfg["det"]
    if case.get("scenario") == "enum":
        ctx.probe("enumerated_short_sequences")
    det = ctx.call(f"C05:{name}:ctor", build, cfg)
    spec = spec_for(cfg)
    recs = Recs("run" if name == "stepd" else "first")
    epoch, epoch_no, drifts = [], 0, 0
    prev = None
    saw_warning = False
    warn_gap = 0  # warning -> None -> warning inside one epoch
    tol = TOL
    if name == "stepd":
        # near 0 the p-value 1 - Phi(T) lives on a lattice of spacing 2**-53, so a level far below 1e-9 is still decided
        # with a wide relative margin: scale the near-tie tolerance to the smallest positive level
        pos = [a for a in (cfg["alpha_warning"], cfg["alpha_drift"]) if a > 0]
        tol = min([TOL] + [1e-3 * a for a in pos])
    for t, (yt, yp) in enumerate(case["events"]):
        ctx.step = t
        det = ctx.maybe_fork(det)
        if prev == "drift":
            epoch, epoch_no = [], epoch_no + 1
            recs.start_epoch()
            saw_warning, warn_gap = False, 0
        epoch.append(1 if yt == yp else 0)
        ctx.call(f"C05:{name}:update", det.update, yt, yp)
        ctx.sim_time += 1
        if case.get("one_pass"):
            # long epochs: the specification is causal (its verdict after sample i depends on the epoch's first i outcomes only),
            # so it is evaluated once over all outcomes from the start of the epoch on and read off position by position
            if len(epoch) == 1:
                ahead = spec([1 if a == b else 0 for a, b in case["events"][t:]])
            exp_state, margin = ahead[len(epoch) - 1]
        else:
            exp_state, margin = spec(epoch)[-1]
        got = det.drift_state
        if got != exp_state:
            # a floating-point near-tie is not judged; an EXACT tie (both sides bit-equal, e.g. 0 >= 0 on an all-correct
            # prefix) is judged for DDM and STEPD, whose docstrings state the comparison operator; EDDM's docstring
            # (strict <) contradicts its code (<=), so its exact ties are not judged either (DESIGN.md 9.5)
            if margin <= tol and not (margin == 0.0 and name != "eddm"):
                ctx.near_tie()
            ctx.violation("state", f"C05:{name}:state",
                          f"after sample {t} (epoch {epoch_no}, n={len(epoch)}) spec says {exp_state!r}, detector says {got!r}; cfg={cfg}")
            raise EndRun()
        if name == "stepd" and all(hasattr(det, a) for a in ("recent_accuracy", "past_accuracy", "overall_accuracy")):
            # the three accuracies the test is made of, as the public accessors document them
            n, w = len(epoch), min(cfg["window_size"], len(epoch))
            want = (sum(epoch[n - w:]) / w, (sum(epoch[: n - w]) / (n - w)) if n > w else 0, sum(epoch) / n)
            have = (det.recent_accuracy(), det.past_accuracy(), det.overall_accuracy())
            if not all(close(float(a), float(b), 1e-12) for a, b in zip(have, want)):
                ctx.violation("accuracy", "C05:stepd:accuracies",
                              f"after sample {t} (epoch {epoch_no}, n={n}, window {cfg['window_size']}): recent / past / overall accuracy {tuple(float(v) for v in have)}, "
                              f"from the epoch's outcomes {want}; cfg={cfg}")
                raise EndRun()
        exp_recs = recs.step(exp_state, t)
        got_recs = [None if v is None else int(v) for v in list(det.retraining_recs)]
        if got_recs != exp_recs:
            ctx.violation("recs", f"C05:{name}:recs",
                          f"after sample {t} state={got!r}: retraining_recs {got_recs}, specification {exp_recs}; cfg={cfg}")
            raise EndRun()
        ctx.obs(got, got_recs)
        ctx.state(name, got, prev, min(epoch_no, 4))
        if exp_state == "drift":
            drifts += 1
            if not saw_warning:
                ctx.probe("drift_without_warning")
            if len(epoch) <= (cfg.get("n_threshold") or 2 * cfg.get("window_size", 0)):
                ctx.probe("drift_on_first_eligible_sample")
        if exp_state == "warning":
            if saw_warning and warn_gap:
                ctx.probe("warning_none_warning_in_one_epoch")
                if name == "stepd":
                    ctx.probe("stepd_run_restarted")
            saw_warning, warn_gap = True, 0
        elif exp_state is None and saw_warning:
            warn_gap += 1
        prev = got
    if epoch_no >= 2:
        ctx.probe("three_or_more_epochs")
    ctx.nontrivial = drifts >= 1 and epoch_no >= 1


def truncate(case, step):
    c = dict(case)
    c["events"] = case["events"][: step + 1]
    return c


def shrink(case):
    cfg = case["cfg"]
    for k in ("n_threshold", "window_size"):
        if k in cfg and cfg[k] > 1:
            for v in sorted({1, cfg[k] // 2, cfg[k] - 1}):
                if 1 <= v < cfg[k]:
                    c = dict(case)
                    c["cfg"] = dict(cfg, **{k: v})
                    yield c
    # canonical labels: y_true = 1
    ev = [[1, 1 if a == b else 0] for a, b in case["events"]]
    if ev != case["events"]:
        c = dict(case)
        c["events"] = ev
        yield c


def summarize(case):
    ev = case["events"]
    return {"scenario": case["scenario"], "cfg": case["cfg"], "n_events": len(ev),
            "agreement_prefix": "".join("1" if a == b else "0" for a, b in ev[:60])}
