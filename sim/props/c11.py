"""C11 - PCA-CD scores each component on aligned supports and alarms via Page-Hinkley.

Degenerate simulation target (deterministic sequential state machine): refinement against a
from-scratch window recomputation (sim/models/pcacd.py) over seeded multivariate streams with level /
variance / correlation shifts, with online_scaling on and off, both divergence metrics, and streams
whose test window always equals the reference window (change score must be 0 for the intersection
metric).  Scores are compared, never projections.
"""
import numpy as np

from sim import workload
from sim.core import EndRun, Violation, close
from sim.models.pcacd import Model

PROP = "C11"
FORKS = True      # snapshot / restore events (core.Ctx.maybe_fork)
LEVEL = "exploration"
RULE = (
    "seeded multivariate streams (2-4 features, 3w-8w samples, level / variance / correlation shifts; plus streams that repeat one "
    "window-sized block so that test window == reference window) x window_size 20-60 x ev_threshold x delta x divergence_metric "
    "x sample_period x online_scaling; after every update drift_state, num_pcs and the change-score history are compared with "
    "a from-scratch recomputation (scaler, PCA, per-component KDE / histogram divergence, Page-Hinkley). Non-trivial: >=1 drift "
    "and a rebuilt reference afterwards, or a repeated-block stream; distinct = digests."
)
STATE_MEASURE = "distinct (metric, online_scaling, num_pcs, phase, state) tuples"
WHITE_BOX = ["PCACD._change_score (score history; decisions and num_pcs are compared without it)"]


HEAVY = ["marathon", "long_step", "wide"]


def scenarios(tier):
    k = 1 if tier == "quick" else 8
    # "marathon" (quick: ~1500 checks, thorough: ~4000): one epoch with thousands of checks (anything that saturates or is trimmed after ~1000
    # Page-Hinkley updates only shows there)
    # "wide": 10-14 features of unequal spread with ev_threshold 0.999, so that ten or more principal components are retained
    return [("stream", 300 * k), ("repeat", 80 * k), ("long_step", 8 * k), ("marathon", 3 if tier == "quick" else 8), ("wide", 6 * k)]


def gen(rng, scenario, tier):
    d = rng.randint(2, 4)
    w = rng.choice([20, 30, 40, 60])
    sp = rng.choice([0.05, 0.1, 0.2])
    if round(sp * w) == 0:
        sp = 0.1
    cfg = {"window_size": w, "ev_threshold": rng.choice([0.7, 0.9, 0.99]), "delta": rng.choice([0.01, 0.05, 0.1]),
           "divergence_metric": rng.choice(["kl", "intersection"]), "sample_period": sp, "online_scaling": rng.random() < 0.6}
    if scenario == "marathon":
        # window 60: Page-Hinkley threshold 1 (no alarm on a stationary stream for a long time), a check on every sample
        cfg.update(window_size=60, sample_period=0.017, divergence_metric="intersection", delta=rng.choice([0.15, 0.2]), online_scaling=rng.random() < 0.5)
        rows, drifts = workload.mv_stream(rng, rng.randint(3500, 4500) if tier == "thorough" else rng.randint(1700, 2000), d, drift_rate=0.0)
        # a slowly growing shift in the last fifth: the alarm time then depends on the statistics of the whole long epoch
        n0 = int(len(rows) * 0.8)
        sd0 = max(1e-9, float(np.std([r[0] for r in rows[:200]])))
        for j in range(n0, len(rows)):
            rows[j] = [rows[j][0] + sd0 * 3.0 * (j - n0) / (len(rows) - n0)] + rows[j][1:]
        return {"cfg": cfg, "events": rows, "drift_positions": [n0]}
    if scenario == "wide":
        d = rng.randint(10, 14)
        cfg.update(window_size=rng.choice([30, 40]), ev_threshold=0.999, divergence_metric=rng.choice(["intersection", "kl"]), sample_period=0.1)
        rows, drifts = workload.mv_stream(rng, rng.randint(5 * cfg["window_size"], 8 * cfg["window_size"]), d, drift_rate=0.012)
        # unequal spreads and shapes per feature, so that the components differ from one another
        f = [1.0 + 0.6 * j for j in range(d)]
        rows = [[round(v * f[j] + (abs(v) if j % 3 == 0 else 0.0), 4) for j, v in enumerate(r)] for r in rows]
        return {"cfg": cfg, "events": rows, "drift_positions": drifts}
    if scenario == "long_step":
        # sample_period * window_size > 100: the documented cap of the check period (100 samples) binds
        w = rng.choice([210, 240, 300])
        cfg.update(window_size=w, sample_period=0.5, divergence_metric=rng.choice(["kl", "intersection"]), delta=rng.choice([0.01, 0.05]))
        rows, drifts = workload.mv_stream(rng, 2 * w + rng.randint(250, 450), d, drift_rate=0.004)
        return {"cfg": cfg, "events": rows, "drift_positions": drifts}
    if scenario == "repeat":
        block, _ = workload.mv_stream(rng, w, d, drift_rate=0.0)
        rows = block * rng.randint(3, 5)
        cfg["divergence_metric"] = rng.choice(["intersection", "intersection", "kl"])
        return {"cfg": cfg, "events": rows}
    rows, drifts = workload.mv_stream(rng, rng.randint(3 * w, 8 * w), d, drift_rate=rng.choice([0.005, 0.01, 0.02]), regimes=("tiny",))
    return {"cfg": cfg, "events": rows, "drift_positions": drifts}


def run(case, ctx):
    # online_scaling handed over as numpy.bool_ / 0 / 1 (one run in six): the documented type is bool, and the shipped code
    # reads every non-`True` value as "off".  Either reading of a truthy non-bool is accepted - as long as the detector follows
    # ONE of them throughout the run (scaling on, or raw data projected), which is what C11 pins down
    sc = case["cfg"]["online_scaling"]
    how = None if case.get("retype") is None else ("np.bool_", "int")[case["retype"] % 2]
    if how is None:
        return _run(case, ctx, sc, sc)
    given = np.bool_(sc) if how == "np.bool_" else int(sc)
    ctx.fault("online_scaling_as_" + how)
    if not sc:
        return _run(case, ctx, given, False)
    try:
        return _run(case, ctx, given, True)
    except Violation as v_on:
        try:
            _run(case, ctx, given, False)
        except Violation:
            raise v_on
        ctx.note("truthy_non_bool_online_scaling_read_as_off")


def _run(case, ctx, scaling_given, scaling_model):
    from menelaus.data_drift import PCACD

    cfg = dict(case["cfg"], online_scaling=scaling_model)
    if case.get("run_seed", 1) % 4 == 0:
        # the documented positional order of the constructor's parameters
        order = ["window_size", "ev_threshold", "delta", "divergence_metric", "sample_period", "online_scaling"]
        det = ctx.call("C11:ctor", PCACD, *[dict(cfg, online_scaling=scaling_given)[k] for k in order])
        ctx.probe("constructed_positionally")
    else:
        det = ctx.call("C11:ctor", PCACD, **dict(cfg, online_scaling=scaling_given))
    m = Model(**cfg)
    drifts = rebuilt = 0
    for t, row in enumerate(case["events"]):
        ctx.step = t
        det = ctx.maybe_fork(det)
        x = np.array([row], dtype=float)
        ctx.call("C11:update", det.update, x.copy())
        ctx.sim_time += 1
        was_building = m.building
        m.update(x[0])
        where = f"sample {t} (window {cfg['window_size']}, metric {cfg['divergence_metric']}, online_scaling {cfg['online_scaling']}, {m.num_pcs} components)"
        if det.num_pcs != m.num_pcs:
            ctx.violation("components", "C11:num_pcs", f"{where}: detector retains {det.num_pcs} components, model {m.num_pcs}; cfg={cfg}")
            raise EndRun()
        cs = getattr(det, "_change_score", None)
        if cs is not None:
            if len(cs) not in (len(m.scores), len(m.scores) - 1):   # (with or without the leading placeholder)
                ctx.violation("schedule", "C11:score_schedule",
                              f"{where}: detector has computed {len(cs) - 1} change scores, the documented schedule (every {m.step} samples once both windows are full) gives {len(m.scores) - 1}; cfg={cfg}")
                raise EndRun()
            if len(cs) and len(m.scores) > 1 and (np.isnan(float(cs[-1])) != np.isnan(float(m.scores[-1]))) \
                    and (abs(float(cs[-1])) < 1e-6 or abs(m.scores[-1]) < 1e-6):
                # Jensen-Shannon distance of (numerically) identical densities: sqrt of +-1e-17, i.e. NaN or ~1e-9, decided by
                # rounding noise; the Page-Hinkley state then legitimately differs - not judged, run is cut here
                ctx.near_tie()
            if len(cs) and len(m.scores) > 1 and not close(cs[-1], m.scores[-1], 1e-8):
                ctx.violation("score", "C11:change_score",
                              f"{where}: change score {float(cs[-1])!r}, per-component recomputation gives {m.scores[-1]!r} (components {m.last_component_scores}); cfg={cfg}")
                raise EndRun()
            if case["scenario"] == "repeat" and cfg["divergence_metric"] == "intersection" and abs(float(cs[-1])) > 1e-9:
                ctx.violation("score", "C11:identical_windows_score",
                              f"{where}: the test window holds exactly the reference window's samples but the change score is {float(cs[-1])!r}; cfg={cfg}")
                raise EndRun()
        else:
            ctx.note("scores_unverified")
        if det.drift_state != m.state:
            if m.margin <= 1e-9:
                ctx.near_tie()
            ctx.violation("decision", "C11:decision", f"{where}: detector reports {det.drift_state!r}, Page-Hinkley on the maximum component score says {m.state!r}; cfg={cfg}")
            raise EndRun()
        if det.drift_state not in (None, "drift"):
            ctx.violation("decision", "C11:state_value", f"drift_state={det.drift_state!r}")
        if m.state == "drift":
            drifts += 1
        if was_building and not m.building and drifts:
            rebuilt += 1
            ctx.probe("reference_rebuilt_from_former_test_window")
        ctx.obs(det.drift_state, m.num_pcs, round(m.scores[-1], 9))
        ctx.state(cfg["divergence_metric"], cfg["online_scaling"], m.num_pcs, "build" if m.building else "slide", m.state)
    if drifts >= 2:
        ctx.probe("two_or_more_drifts")
    if m.num_pcs and m.num_pcs >= 2:
        ctx.probe("two_or_more_components_retained")
    ctx.nontrivial = (drifts >= 1 and rebuilt >= 1) or case["scenario"] == "repeat"


def truncate(case, step):
    c = dict(case)
    c["events"] = case["events"][: step + 1]
    return c


EVENTS_KEY = "events_no_ddmin"  # windows are positional: dropping arbitrary samples changes every later window


def summarize(case):
    return {"scenario": case["scenario"], "cfg": case["cfg"], "n_samples": len(case["events"]), "features": len(case["events"][0]),
            "environment_drift_positions": case.get("drift_positions", [])[:8]}
