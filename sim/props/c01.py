"""C01 - drift state, counters and warm-up follow the detector lifecycle contract.

Every detector is a timer-driven state machine (logical time = accepted updates) fed by a simulated
client over several epochs.  Environment drift events make it alarm repeatedly; the fault-injecting
part of the workload adds explicit reset() / set_reference() at seeded instants.  A monitor checks the
contract after every accepted call.  Stochastic detectors run under the simulator's numpy seed schedule
(every event carries the seed installed before its call).
"""
import math

import numpy as np

from sim import adapters, workload
from sim.core import EndRun, np_seed

PROP = "C01"
FORKS = True      # snapshot / restore events (core.Ctx.maybe_fork)
LEVEL = "exploration"
RULE = (
    "per detector class (15): seeded client history of 80-400 updates (batch: 6-22 batches) with environment "
    "drift events, explicit reset()/set_reference() events at seeded instants (fault-injecting half of the runs), "
    "knobs randomised per run, numpy seed schedule owned by the simulator; invariant monitor after every accepted "
    "call (state domain, total counter, since-reset counter incl. detector-specific restart value, warm-up minimum, "
    "retraining_recs range and clearing). Non-trivial run: >=2 reported drifts; distinct = distinct trace digests."
)
STATE_MEASURE = "distinct (detector, state, previous state, restart cause, epoch index capped at 4) tuples"
WHITE_BOX = []
REAL = ["all of menelaus (15 detector classes)", "numpy", "scipy", "pandas", "scikit-learn"]
STUBS = ["MD3: deterministic threshold classifier and margin function (user-supplied objects)"]
RECS = ("ADWIN", "ADWINAccuracy", "DDM", "EDDM", "STEPD", "LinearFourRates")
EXPLICIT_RESET_OK = ("ADWIN", "ADWINAccuracy", "CUSUM", "PageHinkley", "DDM", "EDDM", "STEPD", "LinearFourRates",
                     "KdqTreeStreaming", "KdqTreeBatch", "NNDVI")

QUICK = {"ADWIN": 120, "ADWINAccuracy": 80, "CUSUM": 120, "PageHinkley": 120, "DDM": 120, "EDDM": 120, "STEPD": 100,
         "LinearFourRates": 60, "KdqTreeStreaming": 60, "PCACD": 36, "KdqTreeBatch": 50, "HDDDM": 70, "CDBD": 60,
         "NNDVI": 50, "MD3": 50}


def scenarios(tier):
    k = 1 if tier == "quick" else 10
    out = [(n, 2 * v * k) for n, v in QUICK.items()]
    try:
        from sim.props import c19  # noqa: F401
    except ImportError:
        out = [o for o in out if o[0] != "MD3"]
    return out


# ------------------------------------------------------------------------------------------- generation
def gen(rng, scenario, tier):
    name = scenario
    if name == "MD3":
        from sim.props import c19
        case = c19.gen(rng, "legal", tier)
        case["det"] = "MD3"
        return case
    cfg = adapters.sample_cfg(rng, name)
    k = adapters.kind(name)
    inject = rng.random() < 0.5
    ev = []
    if k == "batch":
        d = adapters.n_features(rng, name)
        nb = rng.randint(6, 22)
        bs, drifts = workload.batches(rng, nb + 1, d, 8, 40, drift_rate=rng.choice([0.3, 0.5]))
        no_ref = name == "KdqTreeBatch" and rng.random() < 0.4
        if not no_ref:
            ev.append(["ref", bs[0], np_seed(rng)])
        for b in bs[1:]:
            if inject and rng.random() < 0.08:
                if name in EXPLICIT_RESET_OK and rng.random() < 0.4:
                    ev.append(["r"])
                else:
                    ev.append(["ref", b, np_seed(rng)])
                    continue
            ev.append(["u", b, np_seed(rng)])
    else:
        n = rng.randint(80, 400)
        if k == "x":
            # CUSUM documents a ValueError for a zero-variance estimation window: no 0/1 streams for it
            knd = rng.choice(["gauss", "gauss", "ramp", "heavy"]) if name == "CUSUM" else None
            xs, drifts = workload.stream_values(rng, n, kind=knd, drift_rate=rng.choice([0.01, 0.02, 0.04]))
        elif k == "y":
            xs, drifts = workload.outcomes(rng, n)
        else:
            d = adapters.n_features(rng, name)
            if name == "PCACD":
                n = rng.randint(150, 420)
            xs, drifts = workload.mv_stream(rng, n, d, drift_rate=rng.choice([0.01, 0.02]))
        for x in xs:
            if inject and name in EXPLICIT_RESET_OK and rng.random() < 0.01:
                ev.append(["r"])
            ev.append(["u", x, np_seed(rng)])
    return {"det": name, "cfg": cfg, "events": ev, "drift_positions": drifts}


# ------------------------------------------------------------------------------------------- execution
def _payload(k, x):
    if k == "x":
        return (x,), {}
    if k == "y":
        return (x[0], x[1]), {}
    return (np.array([x], dtype=float),), {}


def run(case, ctx):
    name = case["det"]
    if name == "MD3":
        from sim.props import c19
        return c19.run_lifecycle(case, ctx)
    if adapters.kind(name) == "batch":
        return run_batch(case, ctx)
    return run_stream(case, ctx)


def _bad(ctx, name, kind, msg, cfg):
    ctx.violation(kind, f"C01:{name}:{kind}", f"{msg}; cfg={cfg}")
    raise EndRun()


def run_stream(case, ctx):
    name, cfg = case["det"], case["cfg"]
    k = adapters.kind(name)
    det = ctx.call(f"C01:{name}:ctor", adapters.build, name, cfg)
    adwin = name in ("ADWIN", "ADWINAccuracy")
    total = 0
    prev_state, prev_ssr = None, 0
    epoch_age = 0          # samples since the last restart cause (drift restart, explicit reset, start)
    epoch_no = 0
    errors = 0             # EDDM: errors in the current epoch
    W = 0                  # ADWIN: window width, tracked from public retraining_recs
    drifts = 0
    last_drift_idx = None
    cause = "start"
    for i, ev in enumerate(case["events"]):
        ctx.step = i
        det = ctx.maybe_fork(det)
        if ev[0] == "r":
            ctx.call(f"C01:{name}:reset", det.reset)
            ctx.fault("explicit_reset")
            t, s = adapters.counters(det)
            if s != 0 or det.drift_state is not None or t != total:
                _bad(ctx, name, "explicit_reset", f"after reset(): since_reset={s}, drift_state={det.drift_state!r}, total={t} (expected 0, None, {total})", cfg)
            prev_state, prev_ssr, epoch_age, errors, cause = None, 0, 0, 0, "explicit_reset"
            epoch_no += 1
            continue
        x, seed = ev[1], ev[2]
        a, kw = _payload(k, x)
        np.random.seed(seed)
        ctx.call(f"C01:{name}:update", det.update, *a, **kw)
        ctx.sim_time += 1
        total += 1
        st = det.drift_state
        tot, ssr = adapters.counters(det)
        if st not in (None, "warning", "drift"):
            _bad(ctx, name, "state_domain", f"drift_state={st!r}", cfg)
        if tot != total:
            _bad(ctx, name, "total_counter", f"update #{total}: total counter {tot}", cfg)
        must_restart = prev_state == "drift" or (adwin and prev_state is not None)
        if must_restart:
            epoch_age, errors, cause = 0, 0, "drift"
            epoch_no += 1
        epoch_age += 1
        if k == "y" and x[0] != x[1]:
            errors += 1
        if name == "KdqTreeStreaming" and epoch_age == cfg["window_size"]:
            exp_ssr, why = 0, "reference window completed"
            ctx.probe("kdq_reference_window_completed")
        elif must_restart:
            exp_ssr, why = (0 if name == "PCACD" else 1), "update following a reported drift"
        else:
            exp_ssr, why = prev_ssr + 1, "ordinary update"
        if ssr != exp_ssr:
            _bad(ctx, name, "since_reset_counter",
                 f"update #{total} ({why}; previous state {prev_state!r}, previous counter {prev_ssr}): since-reset counter {ssr}, expected {exp_ssr}", cfg)
        # ---- warm-up minima
        if adwin:
            w_pre = W + 1
            W = w_pre
        if st is not None:
            ok, need = True, ""
            if name in ("PageHinkley", "CUSUM"):
                ok, need = ssr > cfg["burn_in"], f"since_reset {ssr} > burn_in {cfg['burn_in']}"
            elif name == "DDM":
                ok, need = ssr >= cfg["n_threshold"], f"since_reset {ssr} >= n_threshold {cfg['n_threshold']}"
            elif name == "EDDM":
                ok, need = errors >= cfg["n_threshold"], f"errors in epoch {errors} >= n_threshold {cfg['n_threshold']}"
            elif name == "STEPD":
                ok, need = ssr >= 2 * cfg["window_size"], f"since_reset {ssr} >= 2*window {2 * cfg['window_size']}"
            elif name == "LinearFourRates":
                ok = ssr > cfg["burn_in"] and ssr % cfg["subsample"] == 0
                need = f"since_reset {ssr} > burn_in {cfg['burn_in']} and on the subsample grid {cfg['subsample']}"
            elif adwin:
                ok = total % cfg["new_sample_thresh"] == 0 and w_pre > cfg["window_size_thresh"]
                need = f"total {total} on check schedule {cfg['new_sample_thresh']} and window {w_pre} > {cfg['window_size_thresh']}"
            elif name == "KdqTreeStreaming":
                w, p = cfg["window_size"], cfg["persistence"]
                ok = epoch_age - 2 * w + 1 > p * w
                need = f"epoch age {epoch_age}: window {w} reference + {w} test samples + more than {p}*{w} exceedances"
            elif name == "PCACD":
                w = cfg["window_size"]
                lim = 2 * w if drifts == 0 else w
                ok, need = ssr > lim, f"since_reset {ssr} > {lim} (windows full)"
            if not ok:
                _bad(ctx, name, "early_alarm", f"update #{total}: {st!r} reported before the documented minimum ({need}); epoch {epoch_no} started by {cause}", cfg)
        # ---- recommendations
        if name in RECS:
            rc = [None if v is None else int(v) for v in list(det.retraining_recs)]
            if st == "drift":
                if not (rc[0] is not None and rc[1] is not None and rc[0] <= rc[1] == total - 1):
                    _bad(ctx, name, "recs_on_drift", f"update #{total} reports drift with retraining_recs={rc}; must be a range ending at index {total - 1}", cfg)
                if adwin:
                    W = rc[1] - rc[0] + 1
            if prev_state == "drift":
                if adwin:
                    stale = not (rc == [None, None] or (st == "drift" and rc[1] == total - 1))
                else:
                    stale = any(v is not None and v <= last_drift_idx for v in rc)
                if stale:
                    _bad(ctx, name, "recs_not_cleared", f"update #{total} follows a drift at index {last_drift_idx} but retraining_recs={rc}", cfg)
        if st == "drift":
            drifts += 1
            last_drift_idx = total - 1
            if must_restart:
                ctx.probe("drift_in_consecutive_updates")
            if cause == "explicit_reset":
                ctx.probe("drift_in_epoch_started_by_explicit_reset")
        ctx.obs(st, ssr)
        ctx.state(name, st, prev_state, cause, min(epoch_no, 4))
        prev_state, prev_ssr = st, ssr
    ctx.nontrivial = drifts >= 2
    if drifts >= 3:
        ctx.probe("three_or_more_drifts")


def run_batch(case, ctx):
    name, cfg = case["det"], case["cfg"]
    det = ctx.call(f"C01:{name}:ctor", adapters.build, name, cfg)
    hdm = name in ("HDDDM", "CDBD")
    proxy = 1 if (hdm and cfg["detect_batch"] == 1) else 0
    total = 0
    prev_state, prev_bsr = None, 0
    have_ref = False
    k_in_epoch = 0    # client updates since the epoch started
    drifts = 0
    epoch_no = 0
    cause = "start"
    resync = False
    for i, ev in enumerate(case["events"]):
        ctx.step = i
        det = ctx.maybe_fork(det)
        if ev[0] == "r":
            ctx.call(f"C01:{name}:reset", det.reset)
            ctx.fault("explicit_reset")
            t, s = adapters.counters(det)
            if s != 0 or det.drift_state is not None or t != total:
                _bad(ctx, name, "explicit_reset", f"after reset(): since_reset={s}, drift_state={det.drift_state!r}, total={t} (expected 0, None, {total})", cfg)
            prev_state, prev_bsr, k_in_epoch, cause = None, 0, 0, "explicit_reset"
            if name == "KdqTreeBatch":
                have_ref = False
            epoch_no += 1
            continue
        X = np.array(ev[1], dtype=float)
        np.random.seed(ev[2])
        if ev[0] == "ref":
            ctx.call(f"C01:{name}:set_reference", det.set_reference, X)
            if i > 0:
                ctx.fault("explicit_set_reference")
            total += proxy
            t, s = adapters.counters(det)
            if t != total:
                _bad(ctx, name, "total_counter", f"after set_reference: total counter {t}, expected {total}", cfg)
            if det.drift_state not in (None, "warning", "drift"):
                _bad(ctx, name, "state_domain", f"drift_state={det.drift_state!r}", cfg)
            # the since-reset counter after an explicit set_reference is not fixed by C01: resynchronise
            prev_state, prev_bsr, k_in_epoch, cause, have_ref = det.drift_state, s, 0, "set_reference", True
            epoch_no += 1
            continue
        ctx.call(f"C01:{name}:update", det.update, X)
        ctx.sim_time += 1
        must_restart = prev_state == "drift"
        total += 1 + (proxy if must_restart else 0)
        st = det.drift_state
        tot, bsr = adapters.counters(det)
        if st not in (None, "warning", "drift"):
            _bad(ctx, name, "state_domain", f"drift_state={st!r}", cfg)
        if tot != total:
            _bad(ctx, name, "total_counter", f"batch #{i}: total counter {tot}, expected {total} (proxy batches included)", cfg)
        becomes_reference = name == "KdqTreeBatch" and not have_ref
        if must_restart:
            k_in_epoch, cause = 0, "drift"
            epoch_no += 1
        k_in_epoch += 1
        if becomes_reference:
            exp, why = 0, "first batch becomes the reference"
            have_ref = True
            k_in_epoch = 0
        elif must_restart:
            exp, why = 1 + proxy, "update following a reported drift"
        else:
            exp, why = prev_bsr + 1, "ordinary update"
        if bsr != exp:
            _bad(ctx, name, "since_reset_counter", f"batch #{i} ({why}; previous state {prev_state!r}, previous counter {prev_bsr}): since-reset counter {bsr}, expected {exp}", cfg)
        if st is not None:
            if becomes_reference:
                _bad(ctx, name, "early_alarm", f"{st!r} reported on the batch that became the reference", cfg)
            if hdm and k_in_epoch < cfg["detect_batch"]:
                _bad(ctx, name, "early_alarm", f"{st!r} on test batch {k_in_epoch} of the epoch (started by {cause}); detect_batch={cfg['detect_batch']}", cfg)
        if st == "drift":
            drifts += 1
            if must_restart:
                ctx.probe("drift_in_consecutive_updates")
            if hdm and k_in_epoch == cfg["detect_batch"]:
                ctx.probe("drift_on_first_eligible_batch")
        ctx.obs(st, bsr)
        ctx.state(name, st, prev_state, cause, min(epoch_no, 4))
        prev_state, prev_bsr = st, bsr
    ctx.nontrivial = drifts >= 2


def truncate(case, step):
    c = dict(case)
    c["events"] = case["events"][: step + 1]
    return c


def fix(case):
    ev = case["events"]
    if case["det"] in ("HDDDM", "CDBD", "NNDVI") and (not ev or ev[0][0] != "ref"):
        return None
    return case


def summarize(case):
    ev = case["events"]
    return {"detector": case["det"], "cfg": case.get("cfg"), "n_events": len(ev),
            "ops": "".join({"u": "u", "r": "R", "ref": "S"}.get(e[0], "?") for e in ev[:80]),
            "environment_drift_positions": case.get("drift_positions", [])[:8]}
