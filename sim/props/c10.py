"""C10 - NN-DVI measures neighbourhood density change between exactly the given batches.

The permutation threshold is recomputed from the permutations recorded at the np.random seam of
menelaus.data_drift.nndvi (the model never re-draws).  Membership vectors and the k-NN relation are
checked by brute force; any *valid* k-NN relation is accepted (robust to distance ties).  The NNSP
clauses (exact membership for any sizes, symmetry, range, zero for equal sets) are pure functions of
two samples; they are checked as a by-product of every NNDVI step.
"""
import numpy as np
from scipy.stats import norm

from sim import workload
from sim.core import EndRun, close, np_seed
from sim.seams import record_np_random

PROP = "C10"
FORKS = True      # snapshot / restore events (core.Ctx.maybe_fork)
LEVEL = "exploration"
RULE = (
    "seeded batch histories (4-10 batches of 3-34 rows, 1-3 dims, unequal sizes in 60% of runs, duplicates within and across "
    "batches, drift batches) x k 1..12 (also larger than the test batch) x sampling_times 8-30 x alpha, numpy seed schedule owned by the simulator, permutations "
    "recorded at the seam; per batch: membership vectors, k-NN relation, NNPS distance (symmetry, range, zero for equal sets), "
    "threshold from the recorded permutations, decision, reference kept / replaced. Non-trivial: >=1 drift and >=1 no-drift "
    "batch with unequal sizes or duplicates; distinct = digests."
)
STATE_MEASURE = "distinct (sizes equal?, duplicates across samples?, k, decision) tuples"
WHITE_BOX = []
TIE = 1e-10


def scenarios(tier):
    k = 1 if tier == "quick" else 10
    # big_sampling: thousands of re-assignments of a few hundred pooled points (sampling_times x |D| beyond 2**21): whatever is
    # chunked, capped or vectorised in blocks in the threshold computation only shows there
    return [("nndvi", 2000 * k), ("big_sampling", 3 if tier == "quick" else 10)]


HEAVY = ["big_sampling"]


def gen(rng, scenario, tier):
    if scenario == "big_sampling":
        n = rng.randint(108, 130)
        cfg = {"k_nn": rng.randint(3, 5), "sampling_times": (2**21) // (2 * n) + rng.randint(40, 900), "alpha": rng.choice([0.01, 0.05])}
        bs, drifts = workload.batches(rng, 3, 2, n, n, equal=True, drift_rate=0.6, nd=3)
        return {"cfg": cfg, "events": [[b, np_seed(rng)] for b in bs], "drift_positions": drifts}
    d = rng.randint(1, 3) if rng.random() > 0.06 else rng.randint(16, 22)      # (also: more features than tree-based searches like)
    cfg = {"k_nn": rng.choice([1, 2, 3, 4, 5, 8, 12]), "sampling_times": rng.randint(8, 30), "alpha": rng.choice([0.01, 0.1, 0.3, 0.6, 0.8])}
    bs, drifts = workload.batches(rng, rng.randint(4, 10), d, rng.choice([3, 6, 6]), 34, equal=rng.random() < 0.4, drift_rate=rng.choice([0.3, 0.5]),
                                  nd=rng.choice([1, 2, 2]), dup=rng.choice([0.0, 0.2, 0.4]), regimes=("offset", "tiny", "lattice"))
    # duplicates across consecutive batches
    for i in range(1, len(bs)):
        if rng.random() < 0.4:
            for _ in range(rng.randint(1, 3)):
                bs[i][rng.randrange(len(bs[i]))] = list(rng.choice(bs[i - 1]))
    # re-submitted rows: the next batch holds the same new rows as the previous one (other order / multiplicities) plus rows
    # of the reference - the de-duplicated union is the same point set, the membership vectors are not
    for i in range(2, len(bs)):
        if rng.random() < 0.25:
            prev = bs[i - 1]
            nb = [list(r) for r in prev]
            rng.shuffle(nb)
            nb += [list(rng.choice(prev)) for _ in range(rng.randint(0, 3))]
            nb += [list(rng.choice(bs[0])) for _ in range(rng.randint(1, 4))]
            bs[i] = nb
    case = {"cfg": cfg, "events": [[b, np_seed(rng)] for b in bs], "drift_positions": drifts}
    if rng.random() < 0.15 and abs(bs[0][0][0]) < 1e6:
        # the reference holds whole numbers and arrives integer-typed (counts); the test batches are real-valued
        sc = max(1.0, 3.0 / max(1e-12, max(abs(v) for r in bs[0] for v in r)))
        bs[0][:] = [[float(round(v * sc)) for v in r] for r in bs[0]]
        case["int_ref"] = True
    return case


def members(D, S):
    return np.array([1.0 if any(np.array_equal(row, q) for q in S) else 0.0 for row in D])


def valid_knn(D, A, k):
    """A is a valid k-nearest-neighbour relation (each point included) of the rows of D."""
    n = len(D)
    if A.shape != (n, n):
        return f"adjacency has shape {A.shape}, the de-duplicated union has {n} points"
    dm = np.linalg.norm(D[:, None, :] - D[None, :, :], axis=2)
    for i in range(n):
        inc = np.flatnonzero(A[i] != 0)
        if len(inc) != k or not np.all(A[i][inc] == 1):
            return f"row {i} marks {len(inc)} neighbours, k={k}"
        if A[i, i] != 1:
            return f"row {i} does not include the point itself"
        exc = np.setdiff1d(np.arange(n), inc)
        if len(exc) and dm[i, exc].min() < dm[i, inc].max() - 1e-12:
            return f"row {i}: an excluded point is closer than an included one"
    return None


def nnps(A, v1, v2):
    """NNPS distance by its definition: every row of the neighbour relation is weighted so that all rows carry
    the same mass (rows multiplied up to the least common multiple of the row weights)."""
    w = A.sum(axis=1).astype(int)
    q = np.lcm.reduce(w)
    P = (q / w)[:, None] * A
    m1, m2 = v1 @ P, v2 @ P
    with np.errstate(all="ignore"):
        return float(np.sum(np.abs(m1 - m2) / (m1 + m2)) / len(v1))


def run(case, ctx):
    import menelaus.data_drift.nndvi as nm
    from menelaus.partitioners import NNSpacePartitioner

    cfg = case["cfg"]
    k = cfg["k_nn"]
    log = []
    with record_np_random(nm, log) as have:
        if not have:
            ctx.note("permutations_unverified:seam_missing")
        det = ctx.call("C10:ctor", nm.NNDVI, **cfg)
        reused = NNSpacePartitioner(k)     # one object built again and again: every build must stand on its own
        ref = None
        drifts = nodrift_interesting = 0
        for i, (rows, seed) in enumerate(case["events"]):
            ctx.step = i
            det = ctx.maybe_fork(det)
            X = np.array(rows, dtype=float)
            if i == 0:
                np.random.seed(seed)
                ref_typed = X.astype(np.int64) if case.get("int_ref") else X
                ctx.call("C10:set_reference", det.set_reference, ref_typed.copy())
                ref = X
                continue
            D = np.unique(np.vstack([ref, X]), axis=0)
            if len(D) < k:
                raise EndRun()  # k-NN with k > |D| is outside the documented domain
            del log[:]
            np.random.seed(seed)
            ctx.call("C10:update", det.update, X.copy())
            ctx.sim_time += 1
            # ---- the partitioner on exactly these two samples
            p = NNSpacePartitioner(k) if i % 2 else reused
            first = ref_typed.copy() if (ref is not X and case.get("int_ref") and np.array_equal(ref, ref_typed)) else ref.copy()
            ctx.call("C10:nnsp:build", p.build, first, X.copy())
            # the partitioner's D may list the de-duplicated union in any order: everything below is indexed like p.D
            Dp = np.asarray(p.D, dtype=float)
            same_set = Dp.shape == D.shape and np.array_equal(np.unique(Dp, axis=0), D)
            if same_set:
                D = Dp
            v1, v2 = members(D, ref), members(D, X)
            if not (same_set and np.array_equal(p.v1, v1) and np.array_equal(p.v2, v2)):
                ctx.violation("membership", "C10:nnsp:membership",
                              f"batch {i}: {len(ref)} reference rows, {len(X)} test rows, {len(D)} distinct points: v1 marks {int(np.sum(p.v1))} (expected {int(v1.sum())}), "
                              f"v2 marks {int(np.sum(p.v2))} (expected {int(v2.sum())}) or marks the wrong points")
                raise EndRun()
            A = np.asarray(p.adjacency_matrix, dtype=float)
            bad = valid_knn(D, A, k)
            if bad:
                ctx.violation("adjacency", "C10:nnsp:adjacency", f"batch {i}: {bad}")
                raise EndRun()
            d_act = nnps(A, v1, v2)
            d_impl = NNSpacePartitioner.compute_nnps_distance(p.nnps_matrix, p.v1, p.v2)
            q = NNSpacePartitioner(k)
            q.build(X.copy(), ref.copy())
            d_rev = NNSpacePartitioner.compute_nnps_distance(q.nnps_matrix, q.v1, q.v2)
            d_same = 0.0
            if len(np.unique(X, axis=0)) >= k:
                same = NNSpacePartitioner(k)
                same.build(X.copy(), np.vstack([X[::-1], X[:2]]))   # the same set, other order and multiplicities
                d_same = NNSpacePartitioner.compute_nnps_distance(same.nnps_matrix, same.v1, same.v2)
            # the membership vectors as boolean masks (one-hot all the same) must give the same distance
            d_bool = NNSpacePartitioner.compute_nnps_distance(p.nnps_matrix, np.asarray(p.v1) > 0, np.asarray(p.v2) > 0)
            if not close(d_bool, d_impl, 1e-9):
                ctx.violation("distance", "C10:nnsp:distance_boolean_masks",
                              f"batch {i}: compute_nnps_distance with boolean membership masks gives {d_bool!r}, with the 0/1 vectors {d_impl!r}")
                raise EndRun()
            if not close(d_impl, d_act, 1e-9) or not close(d_impl, d_rev, 1e-9) or not (-1e-12 <= d_impl <= 1 + 1e-12) or abs(d_same) > 1e-12:
                ctx.violation("distance", "C10:nnsp:distance",
                              f"batch {i}: compute_nnps_distance={d_impl!r}, definition {d_act!r}, samples swapped {d_rev!r}, same set given twice {d_same!r}")
                raise EndRun()
            # ---- threshold from the recorded permutations
            perms = [c[4] for c in log if c[0] == "permutation"]
            verified = bool(perms)
            if verified:
                if len(perms) != cfg["sampling_times"]:
                    ctx.violation("threshold", "C10:sampling_times", f"batch {i}: {len(perms)} re-assignments drawn, sampling_times={cfg['sampling_times']}")
                    raise EndRun()
                for pm in perms:
                    pm = np.asarray(pm, dtype=float)
                    if pm.shape != v1.shape or not np.array_equal(np.sort(pm), np.sort(v1)):
                        ctx.violation("threshold", "C10:reassignment",
                                      f"batch {i}: a re-assignment is not a permutation of the reference membership vector ({int(pm.sum())} vs {int(v1.sum())} members)")
                        raise EndRun()
                ds = [nnps(A, np.asarray(pm, dtype=float), 1 - np.asarray(pm, dtype=float)) for pm in perms]
                mu, sd = float(np.mean(ds)), float(np.std(ds))
                if sd <= 1e-12:
                    # all re-assignments give the same distance (e.g. k = |D|): the fitted normal is degenerate and the
                    # quantile is decided by rounding noise - not judged
                    ctx.probe("degenerate_threshold_not_judged")
                    ctx.near_ties += 1
                    verified = False
                th = float(norm.ppf(1 - cfg["alpha"], mu, sd)) if sd > 1e-12 else float("nan")
                exp = d_act > th
                got = det.drift_state == "drift"
                if verified and got != exp:
                    if abs(d_act - th) <= TIE:
                        ctx.near_tie()
                    ctx.violation("decision", "C10:decision",
                                  f"batch {i}: NNPS distance {d_act!r}, threshold {th!r} (normal fit mu={mu!r} sd={sd!r} of {len(ds)} re-assignments, alpha={cfg['alpha']}): "
                                  f"expected drift={exp}, detector reports {det.drift_state!r}; {len(ref)} reference rows, {len(X)} test rows, k={k}")
                    raise EndRun()
            else:
                ctx.note("decisions_unverified")
            if det.drift_state not in (None, "drift"):
                ctx.violation("decision", "C10:state_value", f"drift_state={det.drift_state!r}")
            drifted = det.drift_state == "drift"
            unequal = len(ref) != len(X)
            cross_dup = bool(np.sum(v1 * v2) > 0)
            new_ref = X if drifted else ref
            if not np.array_equal(np.asarray(det.reference_batch, dtype=float), new_ref):
                ctx.violation("reference", "C10:reference",
                              f"batch {i}: drift={drifted} but reference_batch is {'not the test batch' if drifted else 'no longer the previous reference'}")
                raise EndRun()
            if drifted:
                drifts += 1
            elif unequal or cross_dup:
                nodrift_interesting += 1
            if unequal:
                ctx.probe("unequal_sizes")
            if cross_dup:
                ctx.probe("cross_sample_duplicates")
            if len(np.unique(X, axis=0)) < len(X):
                ctx.probe("duplicates_within_a_batch")
            ctx.obs(det.drift_state, round(d_act, 10))
            ctx.state(not unequal, cross_dup, k, drifted)
            ref = new_ref
    ctx.nontrivial = drifts >= 1 and nodrift_interesting >= 1


def truncate(case, step):
    c = dict(case)
    c["events"] = case["events"][: step + 1]
    return c


def fix(case):
    return case if len(case["events"]) >= 2 else None


def summarize(case):
    return {"cfg": case["cfg"], "batch_sizes": [len(e[0]) for e in case["events"]], "dims": len(case["events"][0][0][0])}
