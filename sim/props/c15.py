"""C15 - detectors and injectors never modify or keep live references to caller data.

Shared-memory fault: the caller overwrites, in place, the object it passed in call j (arr[...] = 1e6,
df.iloc[:, :] = 999999) - after EVERY call (the caller that reuses its buffers) and, enumerated, after
each single call position.  The twin runs the same history on private deep copies and is never
scribbled.  (a) every payload must be bit-identical before/after the call it was passed to (values,
dtype, memory order, index / columns); (b) the primary's observations must equal the twin's for all
later steps.  Injectors: one long-lived instance per class over a history of calls with mixed container
types; input unchanged, output a new object of the same container type sharing no memory, argument
dictionaries unchanged.
"""
import copy

import numpy as np
import pandas as pd

from sim import adapters, workload
from sim.core import EndRun, canon, documented_refusal, np_seed

PROP = "C15"
LEVEL = "fault_enumeration"
RULE = (
    "per detector taking array input (9) and per label-based detector (5): seeded history (stream 15-40 calls, batch 5-10 "
    "batches incl. set_reference) with a seeded mix of containers {ndarray C, ndarray F, strided view, DataFrame single block, "
    "DataFrame mixed int/float}; fault runs: scribble after every call, and - enumerated - scribble after each single call "
    "position; compared with a twin on private copies; every payload snapshot-compared around its call. Injectors (8): "
    "one instance per class over 6-12 calls with alternating ndarray / DataFrame inputs. evaluations = histories; faulted runs "
    "are counted in fault_counts. Non-trivial history: >=1 drift after a scribbled reference / batch; distinct = digests."
)
STATE_MEASURE = "distinct (detector or injector, container, call kind, state) tuples"
WHITE_BOX = ["private running statistics and stored references (twin comparison only)"]
SIM_TIME_UNIT = "calls into menelaus over all faulted runs (logical time)"
NAMES = ["a", "b", "c", "d"]
ARRAY_DETS = {"ADWIN": 20, "CUSUM": 20, "PageHinkley": 20, "KdqTreeStreaming": 14, "PCACD": 5, "KdqTreeBatch": 14, "HDDDM": 20,
              "CDBD": 16, "NNDVI": 24}
LABEL_DETS = {"DDM": 10, "EDDM": 10, "STEPD": 10, "LinearFourRates": 4, "ADWINAccuracy": 8}
ENSEMBLES = {"BatchEnsemble": 14, "StreamingEnsemble": 14}   # members that store what they are given, behind (view-returning) selectors


def _kind(name):
    return {"BatchEnsemble": "batch", "StreamingEnsemble": "xx"}.get(name) or adapters.kind(name)


def _build(name, cfg):
    if name == "BatchEnsemble":
        from menelaus.data_drift import HDDDM, NNDVI, KdqTreeBatch
        from menelaus.ensemble import BatchEnsemble, SimpleMajorityElection

        members = {"nndvi": NNDVI(k_nn=2, sampling_times=8, alpha=0.2), "kdq": KdqTreeBatch(alpha=0.2, bootstrap_samples=6, count_ubound=3),
                   "hdddm": HDDDM(detect_batch=2, subsets=3), "nndvi_sliced": NNDVI(k_nn=2, sampling_times=8, alpha=0.2)}
        sel = {"nndvi_sliced": (lambda X: X.iloc[:, :1] if hasattr(X, "iloc") else X[:, :1])}   # a basic slice: a view of the caller's array
        return BatchEnsemble(members, SimpleMajorityElection(), sel if cfg.get("selectors") else {})
    if name == "StreamingEnsemble":
        from menelaus.change_detection import CUSUM, PageHinkley
        from menelaus.data_drift import KdqTreeStreaming
        from menelaus.ensemble import MinimumApprovalElection, StreamingEnsemble

        first = lambda X: X.iloc[:, :1] if hasattr(X, "iloc") else X[:, :1]  # noqa: E731
        members = {"cusum": CUSUM(burn_in=6, threshold=4), "ph": PageHinkley(burn_in=3, threshold=2),
                   "kdq": KdqTreeStreaming(window_size=5, alpha=0.2, bootstrap_samples=6, count_ubound=2)}
        return StreamingEnsemble(members, MinimumApprovalElection(1), {"cusum": first, "ph": first})
    return adapters.build(name, cfg)


def _observe(det):
    if hasattr(det, "detectors"):
        o = {"state": det.drift_state if hasattr(det, "drift_state") else None}
        for k_, m in det.detectors.items():
            o[k_] = adapters.observe(m)
        return o
    return adapters.observe(det)
CONTAINERS = ["C", "F", "view", "df", "df_mixed", "ro_view"]
STREAM_1D = ["nd1", "rowview", "series", "ro_row"]   # one observation in a 1-D container (streaming detectors only)


def scenarios(tier):
    k = 1 if tier == "quick" else 8
    out = [(n, v * k) for n, v in {**ARRAY_DETS, **LABEL_DETS, **ENSEMBLES}.items()]
    out.append(("injectors", 150 * k))
    # MD3 (its own validation, a DataFrame protocol): every frame it is given is built over a caller-owned array (copy=False) that
    # the caller overwrites as soon as the call has returned; the C19 protocol model, which never saw the overwrites, is the twin
    out.append(("MD3", 40 * k))
    return out


# ----------------------------------------------------------------------------------------- generation
def gen(rng, scenario, tier):
    if scenario == "injectors":
        return gen_injectors(rng)
    if scenario == "MD3":
        from sim.props import c19

        case = c19.gen(rng, "legal" if rng.random() < 0.5 else "protocol", tier)
        case["scribble"] = True
        case["det"] = "MD3"
        return case
    name = scenario
    if name in ENSEMBLES:
        ev = []
        if name == "BatchEnsemble":
            bs, _ = workload.batches(rng, rng.randint(5, 9), 2, 8, 20, drift_rate=0.5)
            for j, b in enumerate(bs):
                ev.append([b, rng.choice(["C", "F", "view", "df"]), np_seed(rng)] + (["ref"] if (j > 0 and rng.random() < 0.12) else []))
        else:
            xs, _ = workload.mv_stream(rng, rng.randint(20, 40), 2, drift_rate=0.1)
            ev = [[x, rng.choice(["C", "F", "view", "df"]), np_seed(rng)] for x in xs]   # (the selectors index two dimensions)
        return {"det": name, "cfg": {"selectors": rng.random() < 0.7}, "events": ev}
    cfg = adapters.sample_cfg(rng, name)
    k = adapters.kind(name)
    if name == "PCACD":
        cfg.update(window_size=10, sample_period=rng.choice([0.1, 0.2]))
    if name == "KdqTreeStreaming":
        cfg["window_size"] = rng.choice([2, 5, 8])
    if name == "LinearFourRates":
        cfg["num_mc"] = 6
    ev = []
    if k == "batch":
        d = adapters.n_features(rng, name)
        if name == "NNDVI" and rng.random() < 0.4:
            d = 1      # a single-column frame is already contiguous: "copies" that are no-ops show only here
        bs, _ = workload.batches(rng, rng.randint(5, 10), d, 6, 20, drift_rate=0.5, integer=(name != "NNDVI" and rng.random() < 0.3))
        for j, b in enumerate(bs):
            ev.append([b, rng.choice(CONTAINERS if d > 1 else CONTAINERS[:4] + ["ro_view"]), np_seed(rng)] + (["ref"] if (j > 0 and rng.random() < 0.12) else []))
    elif k == "y":
        ys, _ = workload.outcomes(rng, rng.randint(15, 40), burst=0.1)
        for y in ys:
            ev.append([y, rng.choice(["nd1", "nd2", "list"]), np_seed(rng)])
    elif k == "x":
        knd = rng.choice(["gauss", "ramp"]) if name == "CUSUM" else None
        xs, _ = workload.stream_values(rng, rng.randint(15, 40), kind=knd, drift_rate=0.1)
        for x in xs:
            ev.append([[x], rng.choice(CONTAINERS[:4] + ["ro_view"] + STREAM_1D), np_seed(rng)])
    else:
        d = adapters.n_features(rng, name)
        n = rng.randint(28, 40) if name == "PCACD" else rng.randint(15, 40)
        xs, _ = workload.mv_stream(rng, n, d, drift_rate=0.08)
        for x in xs:
            ev.append([x, rng.choice(CONTAINERS + STREAM_1D), np_seed(rng)])
    return {"det": name, "cfg": cfg, "events": ev}


# ----------------------------------------------------------------------------------------- payloads
def build(rows, tag):
    """rows: list of rows.  Returns (object to pass, scribble function)."""
    arr = np.array(rows, dtype=float)
    if tag == "nd1":
        return arr[0].copy()
    if tag == "rowview":
        base = np.full((3, arr.shape[1]), -7.5)
        base[1] = arr[0]
        return base[1]                      # a row view of the caller's 2-D buffer
    if tag == "ro_row":
        base = np.full((3, arr.shape[1]), -7.5)
        base[1] = arr[0]
        v = base[1]
        v.flags.writeable = False           # handed out read-only; the caller's buffer itself stays writeable
        return v
    if tag == "ro_view":
        v = arr.copy().view()
        v.flags.writeable = False           # e.g. what DataFrame.to_numpy() / np.broadcast_to / a ring buffer hand out
        return v
    if tag == "series":
        return pd.Series(arr[0].copy(), index=NAMES[: arr.shape[1]])
    if tag == "C":
        a = np.ascontiguousarray(arr)
    elif tag == "F":
        a = np.asfortranarray(arr)
    elif tag == "view":
        base = np.full((arr.shape[0], arr.shape[1] * 2), -7.5)
        base[:, ::2] = arr
        a = base[:, ::2]
    elif tag == "df":
        a = pd.DataFrame(arr.copy(), columns=NAMES[: arr.shape[1]])
    else:  # df_mixed: first column integer-typed (values are integral in that column only if generated so)
        a = pd.DataFrame(arr.copy(), columns=NAMES[: arr.shape[1]])
        a[NAMES[0]] = np.round(a[NAMES[0]]).astype("int64")
    return a


def scribble(obj):
    if isinstance(obj, pd.DataFrame):
        obj.iloc[:, :] = 999999
    elif isinstance(obj, pd.Series):
        obj.iloc[:] = 999999.0
    elif isinstance(obj, np.ndarray):
        if not obj.flags.writeable:
            owner = obj
            while owner.base is not None and isinstance(owner.base, np.ndarray):
                owner = owner.base           # the caller writes through the buffer it owns
            owner[...] = 1e6
        else:
            obj[...] = 1e6
    elif isinstance(obj, list):
        for i in range(len(obj)):
            obj[i] = 424242


def snapshot(obj):
    if isinstance(obj, pd.DataFrame):
        return ("df", obj.copy(deep=True), list(obj.dtypes.astype(str)), list(obj.columns), list(obj.index))
    if isinstance(obj, pd.Series):
        return ("series", obj.copy(deep=True), str(obj.dtype), list(obj.index))
    if isinstance(obj, np.ndarray):
        return ("nd", obj.copy(order="K"), str(obj.dtype), obj.shape, obj.strides, obj.flags["C_CONTIGUOUS"], obj.flags["F_CONTIGUOUS"])
    return ("py", copy.deepcopy(obj))


def unchanged(snap, obj):
    if snap[0] == "df":
        return (isinstance(obj, pd.DataFrame) and obj.equals(snap[1]) and list(obj.dtypes.astype(str)) == snap[2]
                and list(obj.columns) == snap[3] and list(obj.index) == snap[4])
    if snap[0] == "series":
        return isinstance(obj, pd.Series) and obj.equals(snap[1]) and str(obj.dtype) == snap[2] and list(obj.index) == snap[3]
    if snap[0] == "nd":
        return (isinstance(obj, np.ndarray) and str(obj.dtype) == snap[2] and obj.shape == snap[3] and obj.strides == snap[4]
                and obj.flags["C_CONTIGUOUS"] == snap[5] and obj.flags["F_CONTIGUOUS"] == snap[6]
                and np.array_equal(obj, snap[1], equal_nan=True))
    return obj == snap[1]


def rows_of(k, values, tag):
    """The rows actually delivered (df_mixed rounds its first column)."""
    rows = [list(values)] if k in ("x", "xx") else [list(r) for r in values]
    if tag == "df_mixed":
        rows = [[float(round(r[0]))] + r[1:] for r in rows]
    return rows


def make_y(v, tag):
    return {"nd1": np.array([v]), "nd2": np.array([[v]]), "list": [v]}[tag]


# ----------------------------------------------------------------------------------------- execution
def _run_history(ctx, name, cfg, k, events, scribble_at, base=None):
    """scribble_at: None (twin on private copies), 'all', or an int position.  Returns the trace."""
    det = _build(name, cfg) if base is not None else ctx.call(f"C15:{name}:ctor", _build, name, cfg)
    live = []
    trace = []
    drift_after_scribble = False
    scribbled = False
    for i, ev in enumerate(events):
        values, tag, seed = ev[:3]
        is_ref = k == "batch" and (i == 0 or (len(ev) > 3 and ev[3] == "ref"))
        ctx.step = i
        if k == "y":
            objs = [make_y(values[0], tag), make_y(values[1], tag)]
        else:
            objs = [build(rows_of(k, values, tag), tag)]
        snaps = [snapshot(o) for o in objs]
        np.random.seed(seed)
        try:
            if k == "y":
                det.update(objs[0], objs[1])
            elif is_ref:
                det.set_reference(objs[0])
            elif name == "StreamingEnsemble":
                det.update(objs[0], 1, 1)
            else:
                det.update(objs[0])
        except Exception as e:  # noqa: BLE001
            if documented_refusal(e) and base is None:
                raise EndRun()
            if base is None:
                ctx.violation("exception", f"C15:{name}:valid_call:{tag}:exception:{type(e).__name__}",
                              f"call {i} with container {tag}: {type(e).__name__}: {str(e)[:160]}; cfg={cfg}")
                raise EndRun()
            ctx.violation("later_call_failed", f"C15:{name}:{tag}:call_fails_after_scribble",
                          f"call {i} ({tag}) raises {type(e).__name__}: {str(e)[:160]} after the caller overwrote what it passed in call(s) {scribble_at}; cfg={cfg}")
            raise EndRun()
        ctx.sim_time += 1
        for o, sn in zip(objs, snaps):
            if not unchanged(sn, o):
                ctx.violation("mutated", f"C15:{name}:{tag}:input_modified",
                              f"call {i}: the {tag} object passed to {'set_reference' if is_ref else 'update'} was modified by the call; cfg={cfg}")
                raise EndRun()
        obs = canon(_observe(det))
        trace.append(obs)
        if base is not None and obs != base[i]:
            ctx.violation("live_reference", f"C15:{name}:output_follows_caller_data",
                          f"call {i} ({tag}): output differs from the run on private copies after the caller overwrote what it passed in call(s) "
                          f"{scribble_at if scribble_at != 'all' else 'every earlier call'}: {obs[:180]} vs {base[i][:180]}; cfg={cfg}")
            raise EndRun()
        if scribbled and "drift" in obs:
            drift_after_scribble = True
        live.append(objs)
        if scribble_at == "all" or scribble_at == i:
            for o in objs:
                scribble(o)
            scribbled = True
            ctx.fault("scribble_after_call")
        ctx.state(name, tag, "set_reference" if is_ref else "update", "drift" in obs)
    return trace, drift_after_scribble


def run(case, ctx):
    if case.get("scenario") == "injectors" or "calls" in case:
        return run_injectors(case, ctx)
    if case.get("det") == "MD3":
        from sim.props import c19

        return c19.run(case, ctx)
    name, cfg, events = case["det"], case["cfg"], case["events"]
    k = _kind(name)
    base, _ = _run_history(ctx, name, cfg, k, events, None)
    if "scribble_at" in case:
        _run_history(ctx, name, cfg, k, events, case["scribble_at"], base)
        return
    _, hit = _run_history(ctx, name, cfg, k, events, "all", base)
    positions = range(len(events)) if name not in ("PCACD", "LinearFourRates") else range(0, len(events), 5)
    for j in positions:
        _, h = _run_history(ctx, name, cfg, k, events, j, base)
        hit |= h
    ctx.obs(base[-1], len(events))
    ctx.nontrivial = hit


# ----------------------------------------------------------------------------------------- injectors
INJ = ["FeatureShiftInjector", "FeatureSwapInjector", "FeatureCoverInjector", "LabelSwapInjector", "LabelJoinInjector",
       "LabelProbabilityInjector", "LabelDirichletInjector", "BrownianNoiseInjector"]


def gen_injectors(rng):
    name = rng.choice(INJ)
    calls = []
    for _ in range(rng.randint(6, 12)):
        n = rng.randint(12, 30)
        rows = [[round(rng.gauss(0, 1), 3), round(rng.gauss(5, 2), 3), float(rng.randint(0, 2))] for _ in range(n)]
        # every class present at least 4 times (FeatureCoverInjector samples without replacement)
        for c in (0.0, 1.0, 2.0):
            for j in range(4):
                rows[(int(c) * 4 + j) % n][2] = c
        a = rng.randint(0, n - 2)
        b = rng.randint(a + 1, n)
        if name in ("FeatureShiftInjector", "FeatureSwapInjector", "LabelSwapInjector", "LabelJoinInjector", "BrownianNoiseInjector") \
                and rng.random() < 0.2:
            b = a if rng.random() < 0.7 else max(0, a - 2)      # empty window (from == to, or from > to)
        calls.append({"rows": rows, "container": rng.choice(["nd", "nd", "df", "ndF", "view"]), "from": a, "to": b,
                      "shift": rng.choice([0.5, -1.0, 2.0, 0, 0.0]), "probs": rng.choice([{"0.0": 0.5}, {"0.0": 0.2, "1.0": 0.3}, {"1.0": 1.0}, {}]),
                      "alpha": {"0.0": rng.choice([1, 2]), "1.0": 1, "2.0": rng.choice([1, 3])}, "x0": rng.choice([0.0, 1.5]),
                      "seed": np_seed(rng), "chain": rng.random() < 0.4})
    return {"injector": name, "calls": calls, "events": calls}


def run_injectors(case, ctx):
    import menelaus.injection as inj

    name = case["injector"]
    obj = ctx.call(f"C15:{name}:ctor", getattr(inj, name))
    cols = ["f", "g", "label"]
    prev = None          # (container, object returned by the previous call)
    kept = []            # every object returned so far, with a snapshot: a later call must not reach into an earlier result
    for i, c in enumerate(case["calls"]):
        ctx.step = i
        arr = np.array(c["rows"], dtype=float)
        ct = c["container"]
        chained = bool(c.get("chain")) and prev is not None and name != "FeatureCoverInjector" and len(prev[1]) >= max(c["from"], c["to"])
        if chained:
            # a pipeline: this call works on what the previous call returned (same injector instance)
            ct, data = prev
            ctx.fault("injector_call_on_previous_result")
            col = (lambda j: cols[j]) if ct == "df" else (lambda j: j)  # noqa: E731
        elif ct == "df":
            data = pd.DataFrame(arr.copy(), columns=cols)
            col = lambda j: cols[j]  # noqa: E731
        else:
            data = {"nd": np.ascontiguousarray(arr), "ndF": np.asfortranarray(arr)}.get(ct)
            if data is None:
                base = np.full((arr.shape[0], 6), -3.0)
                base[:, ::2] = arr
                data = base[:, ::2]
            col = lambda j: j  # noqa: E731
        snap = snapshot(data)
        probs = {float(k_): v for k_, v in c["probs"].items()}
        alpha = {float(k_): v for k_, v in c["alpha"].items()}
        probs0, alpha0 = dict(probs), dict(alpha)
        np.random.seed(c["seed"])
        f, t = c["from"], c["to"]
        if name == "FeatureShiftInjector":
            args = (data, f, t, col(0), c["shift"])
        elif name == "FeatureSwapInjector":
            args = (data, f, t, col(0), col(1))
        elif name == "FeatureCoverInjector":
            args = (data, col(2), 6, c["seed"] % 1000)
        elif name == "LabelSwapInjector":
            args = (data, f, t, col(2), 0.0, 1.0)
        elif name == "LabelJoinInjector":
            args = (data, f, t, col(2), 0.0, 1.0, 7.0)
        elif name == "LabelProbabilityInjector":
            args = (data, f, t, col(2), probs)
        elif name == "LabelDirichletInjector":
            args = (data, f, t, col(2), alpha)
        else:
            args = (data, f, t, col(0), c["x0"], c["seed"] % 1000)
        refused = False
        try:
            out = obj(*args)
        except ValueError as e:
            # the injectors document ValueError for probability arguments they do not accept (and
            # LabelDirichletInjector trips over its own check when the drawn probabilities sum to
            # 1 + 1 ulp - an observation outside C15, see DESIGN.md); the no-mutation clause still applies
            refused = True
            ctx.note("injector_call_refused:" + str(e)[:24])
        except Exception as e:  # noqa: BLE001
            ctx.violation("exception", f"C15:{name}:call:{ct}:exception:{type(e).__name__}", f"call {i}: {type(e).__name__}: {str(e)[:160]}")
            raise EndRun()
        ctx.sim_time += 1
        if not unchanged(snap, data):
            ctx.violation("mutated", f"C15:{name}:input_modified", f"call {i} ({ct}): the input data were modified")
            raise EndRun()
        if probs != probs0 or alpha != alpha0:
            ctx.violation("mutated", f"C15:{name}:argument_dict_modified",
                          f"call {i}: dictionary argument changed from {probs0 if probs != probs0 else alpha0} to {probs if probs != probs0 else alpha}")
            raise EndRun()
        if refused:
            continue
        same_type = isinstance(out, pd.DataFrame) if ct == "df" else (isinstance(out, np.ndarray) and not isinstance(out, pd.DataFrame))
        if not same_type:
            ctx.violation("container", f"C15:{name}:container_type",
                          f"call {i}: input container {ct} ({type(data).__name__}), returned {type(out).__name__} (same instance, earlier calls used {[x['container'] for x in case['calls'][:i]]})")
            raise EndRun()
        if out is data or np.shares_memory(np.asarray(out), np.asarray(data)) or (ct == "view" and np.shares_memory(np.asarray(out), data.base)):
            ctx.violation("aliasing", f"C15:{name}:output_aliases_input", f"call {i} ({ct}): the returned object shares memory with the input")
            raise EndRun()
        for j, (o, sn) in enumerate(kept):
            if not unchanged(sn, o):
                ctx.violation("aliasing", f"C15:{name}:earlier_result_overwritten",
                              f"call {i} ({ct}{', on the previous result' if chained else ''}) changed the object that call {j} had returned")
                raise EndRun()
        kept.append((out, snapshot(out)))
        prev = ("df" if ct == "df" else "nd", out)
        ctx.state(name, ct, chained)
        ctx.obs(name, ct, np.asarray(out, dtype=float).shape)
    kinds = {c["container"] for c in case["calls"]}
    ctx.nontrivial = "df" in kinds and len(kinds) >= 2


# ----------------------------------------------------------------------------------------- minimisation
def truncate(case, step):
    if "calls" in case:
        c = dict(case)
        c["calls"] = case["calls"][: step + 1]
        c["events"] = c["calls"]
        return c
    if case.get("det") == "MD3" and isinstance(step, int) and step >= 0:
        return dict(case, events=case["events"][: step + 1])
    return None


EVENTS_KEY = "events_for_ddmin"


def shrink(case):
    if "calls" in case:
        calls = case["calls"]
        for i in range(len(calls) - 1):
            c = dict(case)
            c["calls"] = calls[:i] + calls[i + 1:]
            c["events"] = c["calls"]
            yield c
        return
    ev = case["events"]
    if case.get("det") == "MD3":
        for i in range(len(ev) - 1, -1, -1):
            yield dict(case, events=ev[:i] + ev[i + 1:])
        return
    if "scribble_at" not in case:
        for j in ["all"] + list(range(len(ev))):
            c = dict(case)
            c["scribble_at"] = j
            yield c
        return
    j = case["scribble_at"]
    first = 1 if _kind(case["det"]) == "batch" else 0
    for i in range(len(ev) - 1, first - 1, -1):
        if i == j:
            continue
        c = dict(case)
        c["events"] = ev[:i] + ev[i + 1:]
        if isinstance(j, int) and i < j:
            c["scribble_at"] = j - 1
        yield c


def summarize(case):
    if case.get("det") == "MD3":
        return {"detector": "MD3", "cfg": case["cfg"], "moves": [e[0] for e in case["events"][:40]],
                "faults": "every frame is built over a caller-owned array (copy=False) that is overwritten as soon as the call returns"}
    if "calls" in case:
        return {"injector": case["injector"], "containers": [c["container"] for c in case["calls"]],
                "windows": [[c["from"], c["to"]] for c in case["calls"]]}
    return {"detector": case["det"], "cfg": case["cfg"], "containers": [e[1] for e in case["events"]],
            "faults": "scribble after every call; and, enumerated, after each single call position"}
