"""C18 - batch detectors ignore the order of rows inside a batch.

Reordering fault: a batch is an unordered delivery.  The primary receives every batch (and the
reference) with its rows permuted by the simulator's PRNG; the twin receives the original order; both
run under one numpy seed schedule.  Scope exactly as the property states: divergences for HDDDM / CDBD
with detect_batch 2 or 3, KdqTreeBatch, NNDVI; complete decision sequences for HDDDM / CDBD with
detect_batch=3, KdqTreeBatch and NNDVI.
"""
import numpy as np

from sim import adapters, workload
from sim.core import EndRun, close, np_seed

PROP = "C18"
FORKS = True      # snapshot / restore events (core.Ctx.maybe_fork)
LEVEL = "exploration"
RULE = (
    "HDDDM / CDBD (detect_batch 2, 3), KdqTreeBatch, NNDVI x randomised knobs x seeded batch histories (equal and unequal "
    "sizes, duplicates) x a seeded row permutation of every batch and of the reference; the measured divergence is "
    "compared after every batch and, where the threshold does not depend on row positions, the decision sequence. "
    "Non-trivial run: >=1 drift and >=3 compared batches; distinct = distinct digests."
)
STATE_MEASURE = "distinct (detector, detect_batch or '-', state, sizes equal?) tuples"
WHITE_BOX = ["KdqTreeBatch._test_dist (when present; the public to_plotly_dataframe counts are compared in any case)"]


def scenarios(tier):
    k = 1 if tier == "quick" else 10
    return [("HDDDM", 320 * k), ("CDBD", 240 * k), ("KdqTreeBatch", 200 * k), ("NNDVI", 180 * k),
            ("KdqTreeBatch_big", 16 * k), ("HDDDM_big", 16 * k)]


def gen(rng, scenario, tier):
    if scenario.endswith("_big"):
        # test batches just beyond typical block sizes (chunked processing must not depend on which rows share a block)
        name = scenario[:-4]
        cfg = adapters.sample_cfg(rng, name)
        if name == "KdqTreeBatch":
            cfg.update(count_ubound=rng.choice([16, 64]), bootstrap_samples=5)
        else:
            cfg["detect_batch"] = 3
        d = rng.randint(1, 2)
        sizes = [rng.randint(150, 400)] + [rng.choice([1030, 2050, 4100, 8200]) for _ in range(rng.randint(2, 3))]
        ev = []
        mu = 0.0
        for j, n in enumerate(sizes):
            if j and rng.random() < 0.5:
                mu += rng.choice([-0.5, 0.5, 1.0])
            rows = [[round(rng.gauss(mu, 1), 3) for _ in range(d)] for _ in range(n)]
            # a sorted test batch: a permutation then changes which rows fall into the same block
            if rng.random() < 0.5:
                rows.sort()
            perm = list(range(n))
            rng.shuffle(perm)
            ev.append([rows, perm, np_seed(rng)])
        return {"det": name, "cfg": cfg, "events": ev, "equal_sizes": False}
    name = scenario
    cfg = adapters.sample_cfg(rng, name)
    if name in ("HDDDM", "CDBD"):
        cfg["detect_batch"] = rng.choice([2, 3, 3])
    d = adapters.n_features(rng, name)
    equal = rng.random() < 0.4
    bs, drifts = workload.batches(rng, rng.randint(5, 14), d, 8, 40, equal=equal, dup=rng.choice([0.0, 0.0, 0.2]), regimes=("offset", "tiny"))
    ev = []
    for b in bs:
        perm = list(range(len(b)))
        rng.shuffle(perm)
        ev.append([b, perm, np_seed(rng)])
    return {"det": name, "cfg": cfg, "events": ev, "equal_sizes": equal}


def _kdq_counts(det):
    try:
        df = det.to_plotly_dataframe()
    except Exception:  # noqa: BLE001
        return None
    if df is None or "count_diff" not in df:
        return None
    return df["cell_count"].tolist(), df["count_diff"].tolist()


def run(case, ctx):
    from menelaus.partitioners import NNSpacePartitioner

    name, cfg = case["det"], case["cfg"]
    P = ctx.call(f"C18:{name}:ctor", adapters.build, name, cfg, case.get("retype"))
    T = adapters.build(name, cfg)
    compare_decisions = not (name in ("HDDDM", "CDBD") and cfg["detect_batch"] != 3)
    drifts = compared = 0
    for i, (b, perm, seed) in enumerate(case["events"]):
        ctx.step = i
        P = ctx.maybe_fork(P)
        X = np.array(b, dtype=float)
        Xp = X[perm]
        if i == 0:
            np.random.seed(seed)
            ctx.call(f"C18:{name}:set_reference", P.set_reference, Xp.copy())
            np.random.seed(seed)
            T.set_reference(X.copy())
            continue
        if name == "NNDVI":
            refP, refT = np.array(P.reference_batch), np.array(T.reference_batch)
        np.random.seed(seed)
        ctx.call(f"C18:{name}:update", P.update, Xp.copy())
        np.random.seed(seed)
        T.update(X.copy())
        ctx.sim_time += 1
        compared += 1
        # ---- divergence
        if name in ("HDDDM", "CDBD"):
            if not close(P.current_distance, T.current_distance, 1e-12):
                ctx.violation("divergence", f"C18:{name}:distance",
                              f"batch {i}: distance {P.current_distance!r} with permuted rows, {T.current_distance!r} in original order; cfg={cfg}")
                raise EndRun()
        elif name == "KdqTreeBatch":
            cP, cT = _kdq_counts(P), _kdq_counts(T)
            dP, dT = getattr(P, "_test_dist", None), getattr(T, "_test_dist", None)
            if cP != cT or not close(dP, dT, 1e-12):
                ctx.violation("divergence", f"C18:{name}:leaf_divergence",
                              f"batch {i}: leaf counts / divergence differ between permuted ({dP!r}) and original ({dT!r}) row order; cfg={cfg}")
                raise EndRun()
        else:
            k = cfg["k_nn"]
            pa, pb = NNSpacePartitioner(k), NNSpacePartitioner(k)
            pa.build(refP, Xp)
            pb.build(refT, X)
            da = NNSpacePartitioner.compute_nnps_distance(pa.nnps_matrix, pa.v1, pa.v2)
            db = NNSpacePartitioner.compute_nnps_distance(pb.nnps_matrix, pb.v1, pb.v2)
            if not close(da, db, 1e-12):
                ctx.violation("divergence", f"C18:{name}:nnps_distance",
                              f"batch {i}: NNPS distance {da!r} with permuted rows, {db!r} in original order ({len(refT)} reference rows, {len(X)} test rows); cfg={cfg}")
                raise EndRun()
        # ---- decisions
        if P.drift_state != T.drift_state:
            if compare_decisions:
                ctx.violation("decision", f"C18:{name}:decision",
                              f"batch {i}: {P.drift_state!r} with permuted rows, {T.drift_state!r} in original order; cfg={cfg}")
            raise EndRun()  # detect_batch=2: histories may legitimately diverge (positional bootstrap)
        drifts += T.drift_state == "drift"
        ctx.obs(T.drift_state)
        ctx.state(name, cfg.get("detect_batch", "-"), T.drift_state, case.get("equal_sizes"))
        ctx.fault("batch_rows_permuted")
    ctx.nontrivial = drifts >= 1 and compared >= 3


def truncate(case, step):
    c = dict(case)
    c["events"] = case["events"][: step + 1]
    return c


def fix(case):
    return case if len(case["events"]) >= 2 else None


def summarize(case):
    return {"detector": case["det"], "cfg": case["cfg"], "batch_sizes": [len(e[0]) for e in case["events"]],
            "first_permutation": case["events"][0][1][:12]}
