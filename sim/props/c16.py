"""C16 - only agreement between label and prediction matters; unused arguments are ignored.

Metamorphic twin (degenerate: no schedule dimension).  The primary receives, per event, a randomly
chosen encoding of the same agreement pattern - encodings change mid-history - plus junk in the
argument the detector documents as unused; the twin receives canonical 0/1 and None.  Every
observable must be equal after every call.  Stochastic detectors run under one numpy seed schedule.
"""
import numpy as np

from sim import adapters, workload
from sim.core import EndRun, canon, np_seed

PROP = "C16"
FORKS = True      # snapshot / restore events (core.Ctx.maybe_fork)
LEVEL = "exploration"
RULE = (
    "DDM, EDDM, STEPD, ADWINAccuracy: per event one of 8 label encodings (other ints, strings, bools, floats, >=3 classes, "
    "numpy scalars, 1-element lists / arrays) of the same agreement pattern and junk X; LinearFourRates: per event one of 5 "
    "encodings of the same 0/1 cell and junk X; ADWIN, PageHinkley, CUSUM, KdqTreeStreaming, PCACD, KdqTreeBatch, HDDDM, CDBD, "
    "NNDVI: junk y_true / y_pred; twin on canonical values; all observables compared after every call. Non-trivial run: "
    ">=1 drift and >=3 distinct encodings used (or junk used); distinct = distinct digests."
)
STATE_MEASURE = "distinct (detector, encoding kind or junk kind, state) tuples"
WHITE_BOX = ["private running statistics (twin comparison only)"]
ERR = ["DDM", "EDDM", "STEPD", "ADWINAccuracy"]
UNUSED_Y = ["ADWIN", "PageHinkley", "CUSUM", "KdqTreeStreaming", "PCACD", "KdqTreeBatch", "HDDDM", "CDBD", "NNDVI"]
ENC = ["int", "str", "bool", "float", "multi", "np", "list", "arr", "closefloat", "numstr"]
CELL = ["int", "bool", "np", "list", "arr", "npbool", "boollist", "boolarr", "u8", "i8", "u64", "u8arr"]
N_JUNK = 6


def junk(i):
    return [None, object(), "junk", np.zeros((3, 3)), [1, 2, 3], {"a": 1}][i % N_JUNK]


def scenarios(tier):
    k = 1 if tier == "quick" else 10
    return [("err", 900 * k), ("lfr", 120 * k), ("unused_stream", 400 * k), ("unused_batch", 240 * k)]


def _enc_pair(rng, agree):
    kind = rng.choice(ENC)
    if kind == "int":
        a = rng.randint(-5, 5)
        b = a if agree else a + rng.choice([1, -3])
    elif kind == "str":
        a = rng.choice(["cat", "dog", "x"])
        b = a if agree else a + "_"
    elif kind == "bool":
        a = rng.random() < 0.5
        b = a if agree else (not a)
    elif kind == "float":
        a = round(rng.random() * 10, 2)
        b = a if agree else a + 0.5
    elif kind == "closefloat":
        # distinct class codes that are close in relative terms (category codes stored in a float column, tiny magnitudes)
        a, step = rng.choice([(310112.0, 1.0), (1e9, 1.0), (1e-9, 1e-9), (123456.0, 1.0), (1e15, 1.0)])
        b = a if agree else a + step
    elif kind == "numstr":
        # a number against its own printed form is a DISAGREEMENT (3 != "3"); agreeing pairs are plain equal values
        a = rng.choice([3, 1, 0, 1.0, 0.5, True])
        b = a if agree else str(a)
        if rng.random() < 0.5:
            a, b = b, a
    elif kind == "multi":
        a = rng.randint(0, 6)
        b = a if agree else (a + rng.randint(1, 5)) % 7
    else:  # np / list / arr: small non-negative ints
        a = rng.randint(0, 3)
        b = a if agree else a + 1
    return [kind, a, b]


def _decode(kind, v):
    if kind == "np":
        return np.int64(v)
    if kind in ("u8", "i8", "u64"):      # 0 / 1 labels as they come out of .astype(np.uint8) and friends
        return {"u8": np.uint8, "i8": np.int8, "u64": np.uint64}[kind](v)
    if kind == "u8arr":
        return np.array([v], dtype=np.uint8)
    if kind == "list":
        return [v]
    if kind == "arr":
        return np.array([v])
    if kind == "bool":
        return bool(v)
    if kind == "npbool":
        return np.bool_(v)
    if kind == "boollist":
        return [bool(v)]
    if kind == "boolarr":
        return np.array([bool(v)])
    return v


def gen(rng, scenario, tier):
    if scenario == "err":
        name = rng.choice(ERR)
        ys, drifts = workload.outcomes(rng, rng.randint(50, 300))
        ev = [[_enc_pair(rng, yt == yp), rng.randrange(N_JUNK)] for yt, yp in ys]
        return {"det": name, "cfg": adapters.sample_cfg(rng, name), "events": ev}
    if scenario == "lfr":
        ys, drifts = workload.outcomes(rng, rng.randint(40, 120))
        ev = [[yt, yp, rng.choice(CELL), rng.randrange(N_JUNK), np_seed(rng)] for yt, yp in ys]
        return {"det": "LinearFourRates", "cfg": adapters.sample_cfg(rng, "LinearFourRates"), "events": ev}
    if scenario == "unused_stream":
        name = rng.choice(["ADWIN", "PageHinkley", "CUSUM", "KdqTreeStreaming", "PCACD"])
        cfg = adapters.sample_cfg(rng, name)
        if adapters.kind(name) == "x":
            knd = rng.choice(["gauss", "ramp", "heavy"]) if name == "CUSUM" else None
            xs, _ = workload.stream_values(rng, rng.randint(60, 250), kind=knd)
        else:
            n = rng.randint(120, 260) if name == "PCACD" else rng.randint(60, 200)
            xs, _ = workload.mv_stream(rng, n, adapters.n_features(rng, name), drift_rate=0.02)
        ev = [[x, rng.randrange(N_JUNK), rng.randrange(N_JUNK), np_seed(rng)] for x in xs]
        return {"det": name, "cfg": cfg, "events": ev}
    name = rng.choice(["KdqTreeBatch", "HDDDM", "CDBD", "NNDVI"])
    cfg = adapters.sample_cfg(rng, name)
    bs, _ = workload.batches(rng, rng.randint(6, 16), adapters.n_features(rng, name), 8, 36)
    ev = [[b, rng.randrange(N_JUNK), rng.randrange(N_JUNK), np_seed(rng)] for b in bs]
    return {"det": name, "cfg": cfg, "events": ev}


def _cmp(ctx, name, P, T, i, what):
    oP, oT = adapters.observe(P), adapters.observe(T)
    if not ctx.same_obs(oP, oT):
        key = next(k for k in oT if not ctx.same_obs(oP.get(k), oT[k]))
        ctx.violation("twin", f"C16:{name}:{key}",
                      f"event {i}: with {what} the detector reports {key}={str(oP.get(key))[:100]}; with canonical labels / None it reports {str(oT[key])[:100]}")
        raise EndRun()
    return oP["state"]


def run(case, ctx):
    name, cfg, sc = case["det"], case["cfg"], case["scenario"]
    P = ctx.call(f"C16:{name}:ctor", adapters.build, name, cfg, case.get("retype"))
    T = adapters.build(name, cfg)
    drifts = 0
    used = set()
    for i, ev in enumerate(case["events"]):
        ctx.step = i
        P = ctx.maybe_fork(P)
        if sc == "err":
            (kind, a, b), j = ev
            ctx.call(f"C16:{name}:update", P.update, _decode(kind, a), _decode(kind, b), X=junk(j))
            T.update(1, 1 if a == b else 0)
            what = f"labels ({a!r}, {b!r}) encoded as {kind}, X=junk#{j}"
            used.add(kind)
        elif sc == "lfr":
            yt, yp, kind, j, seed = ev
            np.random.seed(seed)
            ctx.call(f"C16:{name}:update", P.update, _decode(kind, yt), _decode(kind, yp), X=junk(j))
            np.random.seed(seed)
            T.update(yt, yp)
            what = f"cell ({yt},{yp}) encoded as {kind}, X=junk#{j}"
            used.add(kind)
        elif sc == "unused_stream":
            x, j1, j2, seed = ev
            arg = x if adapters.kind(name) == "x" else np.array([x], dtype=float)
            np.random.seed(seed)
            ctx.call(f"C16:{name}:update", P.update, arg, y_true=junk(j1), y_pred=junk(j2))
            np.random.seed(seed)
            T.update(x if adapters.kind(name) == "x" else np.array([x], dtype=float))
            what = f"y_true=junk#{j1}, y_pred=junk#{j2}"
            used.add("junk")
        else:
            b, j1, j2, seed = ev
            X = np.array(b, dtype=float)
            if i == 0:
                np.random.seed(seed)
                ctx.call(f"C16:{name}:set_reference", P.set_reference, X.copy(), y_true=junk(j1), y_pred=junk(j2))
                np.random.seed(seed)
                T.set_reference(X.copy())
            else:
                np.random.seed(seed)
                ctx.call(f"C16:{name}:update", P.update, X.copy(), y_true=junk(j1), y_pred=junk(j2))
                np.random.seed(seed)
                T.update(X.copy())
            what = f"y_true=junk#{j1}, y_pred=junk#{j2}"
            used.add("junk")
        ctx.sim_time += 1
        st = _cmp(ctx, name, P, T, i, what)
        drifts += st == "drift"
        ctx.obs(st)
        ctx.state(name, ev[0][0] if sc == "err" else (ev[2] if sc == "lfr" else "junk"), st)
    ctx.nontrivial = drifts >= 1 and (len(used) >= 3 or "junk" in used)


def truncate(case, step):
    c = dict(case)
    c["events"] = case["events"][: step + 1]
    return c


def summarize(case):
    ev = case["events"]
    return {"scenario": case["scenario"], "detector": case["det"], "cfg": case["cfg"], "n_events": len(ev),
            "first_events": [e if case["scenario"] in ("err", "lfr") else e[1:3] for e in ev[:8]]}
