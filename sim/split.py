"""Statement splitting for the baton scheduler (C06, scenario par_split).

The scheduler pre-empts between source LINES of lfr.py.  A read-modify-write of shared state written on
one line (`self.n += x`, `d[k] = d[k] + 1`) is therefore atomic under it - but not under real threads,
where the interpreter may switch between the load and the store.  This module loads a copy of a source
file through a semantics-preserving AST rewrite that puts load, computation and store on lines of their
own:

    a.b += v           ->   _o = a ; _t = _o.b ; _t += v ; _o.b = _t
    a[i] += v          ->   _o = a ; _k = i ; _t = _o[_k] ; _t += v ; _o[_k] = _t
    a.b = expr         ->   _v = expr ; a.b = _v            (likewise a[i] = expr; single targets only)

Evaluation order is the one Python uses for the original statement, `+=` stays an in-place operator on
the loaded object, and every statement gets a line number of its own, so that each becomes a pre-emption
point.  Sequentially the rewritten module behaves exactly like the original (the C06 oracle runs against
it on the unchanged tree in every invocation, which is the standing proof of that).  Nothing in /repo is
touched: the rewritten module lives only in the checking process.
"""
import ast
import types


class _Splitter(ast.NodeTransformer):
    def __init__(self):
        self.n = 0
        self.split = 0

    def _tmp(self, kind):
        self.n += 1
        return f"__split{self.n}_{kind}"

    @staticmethod
    def _load(name):
        return ast.Name(id=name, ctx=ast.Load())

    @staticmethod
    def _store(name):
        return ast.Name(id=name, ctx=ast.Store())

    def _target_parts(self, target):
        """statements that evaluate the target's sub-expressions once + (load expr, store target) built on the temporaries"""
        pre = []
        o = self._tmp("o")
        pre.append(ast.Assign(targets=[self._store(o)], value=target.value))
        if isinstance(target, ast.Attribute):
            return pre, ast.Attribute(value=self._load(o), attr=target.attr, ctx=ast.Load()), \
                ast.Attribute(value=self._load(o), attr=target.attr, ctx=ast.Store())
        k = self._tmp("k")
        pre.append(ast.Assign(targets=[self._store(k)], value=target.slice))
        return pre, ast.Subscript(value=self._load(o), slice=self._load(k), ctx=ast.Load()), \
            ast.Subscript(value=self._load(o), slice=self._load(k), ctx=ast.Store())

    def visit_AugAssign(self, node):
        self.generic_visit(node)
        if not isinstance(node.target, (ast.Attribute, ast.Subscript)):
            return node
        self.split += 1
        pre, load, store = self._target_parts(node.target)
        t = self._tmp("t")
        return pre + [
            ast.Assign(targets=[self._store(t)], value=load),
            ast.AugAssign(target=self._store(t), op=node.op, value=node.value),
            ast.Assign(targets=[store], value=self._load(t)),
        ]

    def visit_Assign(self, node):
        self.generic_visit(node)
        if len(node.targets) != 1 or not isinstance(node.targets[0], (ast.Attribute, ast.Subscript)):
            return node
        if isinstance(node.value, (ast.Constant, ast.Name)):
            return node          # nothing is read between evaluation and store
        self.split += 1
        v = self._tmp("v")
        return [ast.Assign(targets=[self._store(v)], value=node.value),
                ast.Assign(targets=[node.targets[0]], value=self._load(v))]


def _renumber(tree):
    """every statement on a line of its own (expressions inherit their statement's line)"""
    line = [0]

    def stmt(node):
        line[0] += 1
        ln = line[0]
        for sub in ast.walk(node):
            if isinstance(sub, ast.stmt) and sub is not node:
                continue
            if hasattr(sub, "lineno") or isinstance(sub, (ast.expr, ast.stmt, ast.arg, ast.keyword, ast.alias, ast.excepthandler)):
                sub.lineno = sub.end_lineno = ln
                sub.col_offset = sub.end_col_offset = 0
        for field in ("body", "orelse", "finalbody", "handlers"):
            for child in getattr(node, field, []) or []:
                if isinstance(child, ast.excepthandler):
                    line[0] += 1
                    child.lineno = child.end_lineno = line[0]
                    child.col_offset = child.end_col_offset = 0
                    for c2 in child.body:
                        stmt(c2)
                else:
                    stmt(child)

    for node in tree.body:
        stmt(node)
    return tree


_CACHE = {}


def load_split(module):
    """A module object holding the rewritten copy of `module` (cached per process).  `__file__` of the copy - and the file name
    of its code objects - is the original path + '<split>'."""
    key = module.__file__
    if key in _CACHE:
        return _CACHE[key]
    with open(module.__file__) as f:
        src = f.read()
    tree = ast.parse(src)
    sp = _Splitter()
    tree = sp.visit(tree)
    ast.fix_missing_locations(tree)
    tree = _renumber(tree)
    fname = module.__file__ + "<split>"
    code = compile(tree, fname, "exec")
    mod = types.ModuleType(module.__name__ + "_split")
    mod.__file__ = fname
    mod.__package__ = module.__package__
    mod.__split_count__ = sp.split
    exec(code, mod.__dict__)
    _CACHE[key] = mod
    return mod
