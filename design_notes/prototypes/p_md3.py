import numpy as np, pandas as pd, random, warnings
warnings.simplefilter("ignore")
import menelaus.concept_drift.md3 as mm
from menelaus.concept_drift import MD3
from sklearn.base import BaseEstimator, ClassifierMixin
from sklearn.model_selection import KFold as RealKFold
class Stub(ClassifierMixin, BaseEstimator):
    def __init__(self, margin=0.5): self.margin=margin
    def fit(self,X,y):
        X=np.asarray(X,dtype=float); y=np.asarray(y)
        a=X[y==1,0]; b=X[y==0,0]
        self.t_= float((a.mean() if len(a) else 0)+(b.mean() if len(b) else 0))/2; self.classes_=np.array([0,1]); return self
    def predict(self,X): return (np.asarray(X,dtype=float)[:,0]>self.t_).astype(int)
def margin_fn(det, sample, clf): return int(abs(sample[0]-clf.t_)<=clf.margin)
SPLITS=[]
class KFoldRec(RealKFold):
    def split(self,X,y=None,groups=None):
        for tr,te in super().split(X,y,groups):
            SPLITS[-1].append((tr.copy(),te.copy())); yield tr,te
mm.KFold=KFoldRec
def refstats(df, k, margin):
    X=df[['a','b']].to_numpy(); y=df['y'].to_numpy(); mds=[];accs=[]
    folds=SPLITS[-1]; assert len(folds)==k and sorted(np.concatenate([te for _,te in folds]).tolist())==list(range(len(df)))
    for tr,te in folds:
        c=Stub(margin).fit(X[tr],y[tr]); mds.append(np.mean([abs(x[0]-c.t_)<=margin for x in X[te]])); accs.append(np.mean(c.predict(X[te])==y[te]))
    return dict(len=len(df),md=np.mean(mds),md_std=np.std(mds),acc=np.mean(accs),acc_std=np.std(accs))
def run(seed):
    r=random.Random(seed); rng=np.random.default_rng(seed)
    N=r.randint(12,40); k=r.randint(2,5); sens=r.choice([.5,1,2]); L=r.choice([None,3,5,8]); margin=r.choice([.3,.6,1.0])
    def rows(n, shift=0.0, flip=0.0):
        y=rng.integers(0,2,size=n); a=(y*2-1)*1.0+rng.normal(shift,1,size=n); b=rng.normal(0,1,size=n)
        yy=np.where(rng.random(n)<flip,1-y,y)
        return pd.DataFrame({'a':a.round(3),'b':b.round(3),'y':yy})
    ref=rows(N); clf=Stub(margin).fit(ref[['a','b']],ref['y'])
    det=MD3(clf, margin_calculation_function=margin_fn, sensitivity=sens, k=k, oracle_data_length_required=L)
    SPLITS.append([]); det.set_reference(ref, target_name='y')
    st=refstats(ref,k,margin)
    for key in st:
        if abs(st[key]-det.reference_distribution[key])>1e-12: return ('REFSTAT',key)
    Lreq=L if L is not None else N
    md=st['md']; ff=(N-1)/N; waiting=False; odata=[]; state=None; shift=0.0; flip=0.0; stats=dict(ref=0,warn=0,drift=0,ruled=0,refused=0)
    for t in range(r.randint(40,250)):
        if r.random()<.03: shift=r.choice([0,1.5,-1.5]); flip=r.choice([0,.5])
        move=r.random()
        snapshot=(det.drift_state,det.waiting_for_oracle,None if det.oracle_data is None else len(det.oracle_data),det.curr_margin_density,det.total_updates,det.updates_since_reset)
        if (waiting and move<.85) or (not waiting and move<.08):
            kind='label'; row=rows(1,shift,flip)
            badcols=r.random()<.1
            if badcols: row=row.rename(columns={'b':'zz'})
            try: det.give_oracle_label(row); raised=False
            except ValueError: raised=True
            legal = waiting and not badcols
            if raised==legal: return ('REFUSAL',seed,t,kind,waiting,badcols)
            if not legal:
                stats['refused']+=1
                now=(det.drift_state,det.waiting_for_oracle,None if det.oracle_data is None else len(det.oracle_data),det.curr_margin_density,det.total_updates,det.updates_since_reset)
                if now!=snapshot: return ('REFUSED_CHANGED',seed,t)
                continue
            odata.append(row); state=None
            if len(odata)==Lreq:
                od=pd.concat(odata,ignore_index=True); acc=np.mean(clf.predict(od[['a','b']])==od['y'].to_numpy())
                state='drift' if st['acc']-acc > sens*st['acc_std'] else None
                stats['drift' if state else 'ruled']+=1
                SPLITS.append([]); 
                # impl already called set_reference inside give_oracle_label -> splits recorded in previous list; handle below
                waiting=False; odata=[]; refdf=od
        else:
            x=rows(1,shift,flip)[['a','b']]
            try: det.update(x); raised=False
            except ValueError: raised=True
            if raised!=waiting: return ('UPD_REFUSAL',seed,t,waiting)
            if raised:
                stats['refused']+=1
                now=(det.drift_state,det.waiting_for_oracle,None if det.oracle_data is None else len(det.oracle_data),det.curr_margin_density,det.total_updates,det.updates_since_reset)
                if now!=snapshot: return ('REFUSED_CHANGED',seed,t)
                continue
            if state=='drift': md=st['md']; state=None
            md=ff*md+(1-ff)*int(abs(x.to_numpy()[0][0]-clf.t_)<=margin)
            if abs(md-st['md'])>sens*st['md_std']: state='warning'; waiting=True; stats['warn']+=1
        if (det.drift_state,det.waiting_for_oracle)!=(state,waiting): return ('STATE',seed,t,det.drift_state,state,det.waiting_for_oracle,waiting)
        if not waiting and det.oracle_data is None and 'refdf' in dir() and refdf is not None:
            # new reference adopted: recompute stats from recorded folds of the impl's internal set_reference
            SPLITS[-1]=SPLITS[-2][k:] if len(SPLITS[-2])>k else SPLITS[-1]
            st=refstats(refdf,k,margin); N=len(refdf); ff=(N-1)/N; md=st['md']; refdf=None; stats['ref']+=1
            for key in st:
                if abs(st[key]-det.reference_distribution[key])>1e-12: return ('REFSTAT2',key,seed,t)
        if abs(det.curr_margin_density-md)>1e-12: return ('MD',seed,t,det.curr_margin_density,md)
    return ('ok',stats)
res=[]
for s in range(150):
    SPLITS.clear(); 
    try: res.append(run(s))
    except Exception as e: res.append(('EXC',s,repr(e)[:200]))
bad=[x for x in res if x[0]!='ok']; print("ok",len(res)-len(bad),"bad",len(bad))
agg={}
for x in res:
    if x[0]=='ok':
        for k_,v in x[1].items(): agg[k_]=agg.get(k_,0)+v
print(agg)
for b in bad[:6]: print(b)
