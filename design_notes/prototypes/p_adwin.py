import numpy as np, random, math, warnings
warnings.simplefilter("ignore")
from menelaus.change_detection import ADWIN

class Model:
    def __init__(s, delta, M, period, wthr, sthr, cons):
        s.delta,s.M,s.period,s.wthr,s.sthr,s.cons = delta,M,period,wthr,sthr,cons
        s.xs=[]; s.W=0; s.rows=[0]   # rows[i] = number of buckets of size 2^i
    def sizes_oldest_first(s):
        out=[]
        for i in range(len(s.rows)-1,-1,-1): out += [2**i]*s.rows[i]
        return out
    def insert(s):
        s.rows[0]+=1
        i=0
        while i < len(s.rows) and s.rows[i]==s.M+1:
            if i+1==len(s.rows): s.rows.append(0)
            s.rows[i]-=2; s.rows[i+1]+=1
            if s.rows[i+1] <= s.M: break
            i+=1
    def drop_oldest(s):
        top=len(s.rows)-1
        while s.rows[top]==0: top-=1   # should not happen
        s.rows[top]-=1; n=2**top
        while len(s.rows)>1 and s.rows[-1]==0: s.rows.pop()
        s.W-=n
    def win(s): return np.array(s.xs[len(s.xs)-s.W:], dtype=float)
    def eps(s, n0, n1, var, n):
        nh = 1/(n0-s.sthr+1)+1/(n1-s.sthr+1)
        if not s.cons:
            d = math.log(2*math.log(n)/s.delta)
            return math.sqrt(2*nh*var*d) + (2/3)*nh*d
        d = math.log(4*math.log(n)/s.delta); return math.sqrt(0.5*nh*d)
    def exceeds(s):
        w=s.win(); n=len(w); var=w.var(); cs=np.cumsum(w); tot=cs[-1]
        sizes=s.sizes_oldest_first(); pos=0; tie=False
        for b in sizes[:-1]:
            pos+=b; n0,n1=pos,n-pos
            if n0>=s.sthr and n1>=s.sthr:
                diff=abs(cs[pos-1]/n0-(tot-cs[pos-1])/n1); e=s.eps(n0,n1,var,n)
                if abs(diff-e) < 1e-9*max(1,abs(e)): tie=True
                if diff>e: return True, tie
        return False, tie
    def update(s, x, total):
        s.xs.append(x); s.W+=1; s.insert()
        drift=False; tie=False
        if total % s.period==0 and s.W > s.wthr:
            while True:
                ex,t = s.exceeds(); tie|=t
                if not ex: break
                drift=True; s.drop_oldest()
                if s.W<=0: break
        return drift, tie

def run(seed):
    r=random.Random(seed)
    cfg=dict(delta=r.choice([0.002,0.05,0.3,1.0,1e-4]), max_buckets=r.randint(1,6), new_sample_thresh=r.choice([1,2,3,4,8,16]),
             window_size_thresh=r.randint(0,12), subwindow_size_thresh=r.randint(1,6), conservative_bound=r.random()<.3)
    det=ADWIN(**cfg); m=Model(cfg['delta'],cfg['max_buckets'],cfg['new_sample_thresh'],cfg['window_size_thresh'],cfg['subwindow_size_thresh'],cfg['conservative_bound'])
    mu,sd=0.0,1.0; kind=r.choice(['gauss','bern'])
    ndr=0
    for t in range(1, r.randint(50,400)):
        if r.random()<0.01: mu+=r.choice([-3,3,1,-1])*r.random()*2; sd=r.choice([.5,1,2])
        x = round(r.gauss(mu,sd),4) if kind=='gauss' else float(r.random()< min(.95,max(.05,0.5+mu/10)))
        det.update(x); drift,tie=m.update(x,t)
        if tie: return ('tie',t,ndr)
        w=m.win()
        ok = abs(det.mean()-w.mean())<=1e-9*max(1,abs(w.mean())) and abs(det.variance()-w.var())<=1e-8*max(1,w.var())
        if not ok: return ('STAT',seed,t,cfg,det.mean(),w.mean(),det.variance(),w.var())
        if (det.drift_state=='drift')!=drift: return ('DEC',seed,t,cfg,det.drift_state,drift)
        if drift:
            ndr+=1
            if tuple(det.retraining_recs)!=(t-m.W,t-1): return ('RECS',seed,t,det.retraining_recs,(t-m.W,t-1))
    return ('ok',ndr)
res=[run(s) for s in range(400)]
bad=[x for x in res if x[0] not in ('ok','tie')]
print("ok",sum(1 for x in res if x[0]=='ok'),"tie",sum(1 for x in res if x[0]=='tie'),"bad",len(bad),"runs with drift",sum(1 for x in res if x[0]=='ok' and x[1]>0), "multi", sum(1 for x in res if x[0]=='ok' and x[1]>2))
for b in bad[:5]: print(b)
