import numpy as np, pandas as pd, random, warnings
warnings.simplefilter("ignore")
from menelaus.data_drift import HDDDM, CDBD, KdqTreeBatch, KdqTreeStreaming, NNDVI
from menelaus.change_detection import PageHinkley
from menelaus.concept_drift import DDM, EDDM, STEPD

def obs(det,ref=None):
    ref=ref or det
    o=[det.drift_state]
    for a in ('current_distance','beta','reference_n'):
        if hasattr(ref,a): o.append(round(float(getattr(det,a)),12))
    if hasattr(det,'epsilon'): o.append([round(float(e),12) for e in det.epsilon])
    if hasattr(det,'_test_dist') and det._test_dist is not None: o.append(round(float(det._test_dist),12))
    if hasattr(det,'_critical_dist') and det._critical_dist is not None: o.append(round(float(det._critical_dist),12))
    if hasattr(det,'batches_since_reset'): o.append(det.batches_since_reset)
    if hasattr(det,'samples_since_reset'): o.append(det.samples_since_reset)
    return o
def run_batch(seed):
    r=random.Random(seed); rng=np.random.default_rng(seed)
    kind=r.choice(['hd','cd','kdq','nn'])
    if kind=='hd': mk=lambda: HDDDM(detect_batch=db,statistic=st,significance=sg,subsets=ss); d=r.randint(1,3)
    elif kind=='cd': mk=lambda: CDBD(detect_batch=db,statistic=st,significance=sg,subsets=ss); d=1
    elif kind=='kdq': mk=lambda: KdqTreeBatch(alpha=.1,bootstrap_samples=10,count_ubound=4); d=r.randint(1,3)
    else: mk=lambda: NNDVI(k_nn=3,sampling_times=15,alpha=.1); d=2
    db=r.choice([1,2,3]); st=r.choice(['tstat','stdev']); sg=.2 if st=='tstat' else 1.0; ss=r.randint(2,4)
    n=r.randint(10,40); mu=0.0
    def batch(): return rng.normal(mu,1,size=(n,d)).round(3)
    P=mk(); ref=batch(); np.random.seed(1); P.set_reference(ref.copy()); T=None; nd=0; cmp=0
    for t in range(r.randint(6,20)):
        if r.random()<.3: mu+=r.choice([-2,2])
        X=batch(); was=P.drift_state=='drift'; prev=getattr(P,'_lastX',None)
        np.random.seed(seed*100+t)
        if was:
            T=mk(); T.set_reference(prev.copy()); np.random.seed(seed*100+t)
        P.update(X.copy())
        if T is not None:
            np.random.seed(seed*100+t)
            T.update(X.copy()); cmp+=1
            if obs(P,T)!=obs(T,T): return ('DIFF',kind,db,seed,t,obs(P,T),obs(T,T))
        P._lastX=X; nd+= P.drift_state=='drift'
    return ('ok',nd,cmp)
res=[run_batch(s) for s in range(300)]
bad=[x for x in res if x[0]!='ok']; print("batch twins ok",len(res)-len(bad),"bad",len(bad),"compared steps",sum(x[2] for x in res if x[0]=='ok'))
for b in bad[:4]: print(b)
def run_stream(seed):
    r=random.Random(seed); rng=np.random.default_rng(seed)
    w=r.randint(8,20); mk=lambda: KdqTreeStreaming(window_size=w,persistence=.2,alpha=.2,bootstrap_samples=8,count_ubound=3)
    P=mk(); T=None; mu=0.0; cmp=0
    for t in range(r.randint(100,300)):
        if r.random()<.03: mu=r.choice([0,3,-3])
        x=rng.normal(mu,1,size=(1,2)).round(3)
        if P.drift_state=='drift': T=mk()
        np.random.seed(seed*1000+t); P.update(x.copy())
        if T is not None:
            np.random.seed(seed*1000+t); T.update(x.copy()); cmp+=1
            if obs(P)!=obs(T): return ('DIFF',seed,t,obs(P),obs(T))
    return ('ok',0,cmp)
res=[run_stream(s) for s in range(100)]
bad=[x for x in res if x[0]!='ok']; print("kdq stream twins ok",len(res)-len(bad),"bad",len(bad),"compared steps",sum(x[2] for x in res if x[0]=='ok'))
for b in bad[:4]: print(b)
