import numpy as np, pandas as pd, random, warnings
warnings.simplefilter("ignore")
from menelaus.change_detection import ADWIN, PageHinkley, CUSUM
from menelaus.concept_drift import DDM, EDDM, STEPD, LinearFourRates
from menelaus.data_drift import KdqTreeStreaming, PCACD, HDDDM, CDBD, KdqTreeBatch, NNDVI
from menelaus.ensemble import StreamingEnsemble, BatchEnsemble, SimpleMajorityElection, MinimumApprovalElection, OrderedApprovalElection, ConfirmedElection
class Seeded:
    """member proxy: reseeds numpy before delegating update/set_reference"""
    def __init__(s, inner, key, clock): object.__setattr__(s,'_i',inner); object.__setattr__(s,'_k',key); object.__setattr__(s,'_c',clock)
    def update(s,*a,**k): np.random.seed((s._c[0]*131+hash(s._k)%97)%2**31); return s._i.update(*a,**k)
    def set_reference(s,*a,**k): np.random.seed((s._c[0]*131+hash(s._k)%97)%2**31); return s._i.set_reference(*a,**k)
    def __getattr__(s,n): return getattr(s._i,n)
    def __setattr__(s,n,v): setattr(s._i,n,v)
def elect_model(kind, states, st):
    nd=states.count('drift'); n=len(states)
    if kind[0]=='maj': return 'drift' if nd>n//2 else None
    if kind[0]=='min': return 'drift' if nd>=kind[1] else None
    if kind[0]=='ord': return 'drift' if nd>=kind[1]+kind[2] else None
    c=st.setdefault('c',[0]*n); d=w=0
    for i,v in enumerate(states):
        if v=='drift' and c[i]==0: d+=1; c[i]=1
        elif v=='warning': w+=1
        elif c[i]!=0: d+=1; c[i]+=1
    ret='drift' if d>=kind[1] else ('warning' if d+w>=kind[1] else None)
    st['c']=[0 if x>kind[2] else x for x in c]; return ret
def obs(d): return (d.drift_state, list(d.retraining_recs) if hasattr(d,'retraining_recs') and d.retraining_recs is not None else None, getattr(d,'total_samples',None), getattr(d,'samples_since_reset',None),getattr(d,'total_batches',None))
POOL={'adwin':(lambda: ADWIN(new_sample_thresh=4),'uni'),'ph':(lambda: PageHinkley(burn_in=5,threshold=3),'uni'),'cusum':(lambda: CUSUM(burn_in=8,threshold=6),'uni'),
 'ddm':(lambda: DDM(n_threshold=8),'y'),'eddm':(lambda: EDDM(n_threshold=4),'y'),'stepd':(lambda: STEPD(window_size=8),'y'),'lfr':(lambda: LinearFourRates(burn_in=5,num_mc=8),'y'),
 'kdqs':(lambda: KdqTreeStreaming(window_size=8,persistence=.2,alpha=.3,bootstrap_samples=6,count_ubound=2),'multi')}
bad=[]; steps=0
import hashlib
for seed in range(150):
    r=random.Random(seed); keys=r.sample(list(POOL),r.randint(2,5)); n=len(keys)
    ek=r.choice([('maj',),('min',r.randint(1,n)),('ord',r.randint(1,n),r.randint(0,2)),('conf',r.randint(1,n),r.randint(0,3))])
    E={'maj':lambda:SimpleMajorityElection(),'min':lambda:MinimumApprovalElection(ek[1]),'ord':lambda:OrderedApprovalElection(ek[1],ek[2]),'conf':lambda:ConfirmedElection(ek[1],ek[2])}[ek[0]]()
    clock=[0]; W=3
    sel={}; 
    for k in keys:
        if POOL[k][1]=='uni': c=r.randrange(W); sel[k]=(lambda X,c=c: X[:,[c]])
        elif POOL[k][1]=='multi' and r.random()<.6: cs=sorted(r.sample(range(W),2)); sel[k]=(lambda X,cs=cs: X[:,cs])
    members={k:Seeded(POOL[k][0](),k,clock) for k in keys}; twins={k:Seeded(POOL[k][0](),k,clock) for k in keys}
    ens=StreamingEnsemble(members,E,sel); est={}; mu=np.zeros(W); acc=.9
    for t in range(r.randint(40,200)):
        clock[0]=t
        if r.random()<.03: mu=mu+np.array([r.choice([-3,3,0]) for _ in range(W)]); acc=r.choice([.9,.5])
        X=np.array([[round(r.gauss(m,1),3) for m in mu]]); yt=r.randint(0,1); yp=yt if r.random()<acc else 1-yt
        ens.update(X.copy(),yt,yp); steps+=1
        for k in keys:
            Xs=sel[k](X) if k in sel else X
            twins[k].update(X=Xs.copy(),y_true=yt,y_pred=yp)
            if obs(members[k])!=obs(twins[k]): bad.append(('MEMBER',seed,t,k)); break
        states=[members[k].drift_state for k in keys]
        if list(ens.drift_states.items())!=list(zip(keys,states)): bad.append(('STATES',seed,t)); break
        exp=elect_model(ek,states,est)
        if ens.drift_state!=exp: bad.append(('ELECT',seed,t,ek,states,ens.drift_state,exp)); break
        if ens.total_samples!=t+1: bad.append(('COUNT',seed,t)); break
        if any(b[1]==seed for b in bad): break
print("ensemble steps",steps,"issues",len(bad)); print(bad[:5])
