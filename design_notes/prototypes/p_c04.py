import numpy as np, random, warnings
warnings.simplefilter("ignore")
from menelaus.change_detection import CUSUM, PageHinkley
def ph_spec(xs, delta, thr, burn, direction):
    mean=0;sm=0;mn=0;mx=0
    for i,x in enumerate(xs,1):
        mean=mean+(x-mean)/i; sm=sm+x-mean-delta; mn=min(mn,sm); mx=max(mx,sm)
    diff = sm-mn if direction=='positive' else mx-sm
    return (diff>thr*mean) and len(xs)>burn, diff, thr*mean
def cusum_spec(xs, target, sd, burn, delta, thr, direction, known_from):
    # known_from: index (1-based) of first sample in epoch at which constants exist
    sh=sl=0.0
    for i,x in enumerate(xs,1):
        if i>=known_from:
            z=(x-target)/sd; sh=max(0,sh+z-delta); sl=max(0,sl-delta-z)
    n=len(xs)
    if n<=burn: return False
    if direction is None: return sh>thr or sl>thr
    return sh>thr if direction=='positive' else sl>thr
bad=0; nd=0
for seed in range(500):
    r=random.Random(seed); burn=r.randint(0,25); delta=r.choice([.005,.1,.5]); thr=r.choice([3,8,20]); direction=r.choice(['positive','negative'])
    d=PageHinkley(delta=delta,threshold=thr,burn_in=burn,direction=direction); ep=[]; mu=r.choice([0,5,-2])
    for t in range(r.randint(30,300)):
        if r.random()<.02: mu+=r.choice([-4,4,2])
        x=round(r.gauss(mu,1),4)
        if d.drift_state=='drift': ep=[]
        ep.append(x); d.update(x); exp,diff,theta=ph_spec(ep,delta,thr,burn,direction)
        if abs(diff-theta)<1e-9: break
        if exp!=(d.drift_state=='drift'): bad+=1; print('PH',seed,t); break
        nd+=exp
print("PH bad",bad,"drifts",nd)
# CUSUM: only first epoch is expected to match before the D1 fix; count where later epochs diverge
bad1=0; later=0; tot_later=0
for seed in range(500):
    r=random.Random(seed); burn=r.randint(2,25); delta=r.choice([.005,.25,.5]); thr=r.choice([5,10,25]); direction=r.choice([None,'positive','negative'])
    known=r.random()<.4; tgt,sd=(0.0,1.0) if known else (None,None)
    d=CUSUM(target=tgt,sd_hat=sd,burn_in=burn,delta=delta,threshold=thr,direction=direction); ep=[]; allx=[]; mu=0.0; epoch=0; T,S,kf=tgt,sd,(1 if known else None); diverged=False
    for t in range(r.randint(40,300)):
        if r.random()<.02: mu+=r.choice([-4,4,2])
        x=round(r.gauss(mu,1),4)
        if d.drift_state=='drift':
            T=np.mean(allx[-burn:]); S=np.std(allx[-burn:]); kf=1; ep=[]; epoch+=1
        ep.append(x); allx.append(x); d.update(x)
        if kf is None and len(ep)==burn: T=np.mean(ep); S=np.std(ep); kf=burn
        exp = cusum_spec(ep,T,S,burn,delta,thr,direction,kf) if kf is not None else False
        if exp!=(d.drift_state=='drift'):
            if epoch==0: bad1+=1; print('CUSUM first epoch',seed,t)
            else: diverged=True
            break
    if epoch>0 or diverged: tot_later+=1; later+=diverged
print("CUSUM first-epoch mismatches",bad1,"| runs reaching epoch>=1:",tot_later,"of which diverge (D1):",later)
