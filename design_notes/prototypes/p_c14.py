import numpy as np, pandas as pd, random, warnings, copy
from collections import Counter
warnings.simplefilter("ignore")
from menelaus.change_detection import ADWIN, PageHinkley, CUSUM
from menelaus.data_drift import HDDDM, CDBD, KdqTreeBatch, NNDVI, KdqTreeStreaming, PCACD
STREAM={ 'ADWIN':(lambda: ADWIN(new_sample_thresh=4),1), 'PH':(lambda: PageHinkley(burn_in=5,threshold=3),1), 'CUSUM':(lambda: CUSUM(burn_in=6,threshold=6),1),
  'KdqS':(lambda: KdqTreeStreaming(window_size=6,persistence=.2,alpha=.3,bootstrap_samples=6,count_ubound=2),2), 'PCACD':(lambda: PCACD(window_size=20,divergence_metric='kl',sample_period=.1),2)}
BATCH={ 'HDDDM':(lambda: HDDDM(detect_batch=3),2,True), 'CDBD':(lambda: CDBD(detect_batch=2),1,True), 'KdqB':(lambda: KdqTreeBatch(alpha=.2,bootstrap_samples=6,count_ubound=3),2,True), 'NNDVI':(lambda: NNDVI(k_nn=3,sampling_times=8,alpha=.2),2,True)}
def obs(d):
    return (d.drift_state, getattr(d,'total_samples',None), getattr(d,'samples_since_reset',None), getattr(d,'total_batches',None), getattr(d,'batches_since_reset',None))
def as_container(x, kind, cols):
    if kind=='nd': return np.array(x)
    if kind=='df': return pd.DataFrame(np.array(x), columns=cols[:np.array(x).shape[1]])
    return x
res=Counter(); examples={}
def bad_payloads(w, stream, rng):
    nrow = 1 if stream else 6
    P={}
    P['wrong_rows']= np.zeros((2,w)) if stream else np.zeros((1,w))
    P['width+1']= rng.normal(size=(nrow,w+1))
    if w>1: P['width-1']= rng.normal(size=(nrow,w-1))
    P['df_width+1']= pd.DataFrame(rng.normal(size=(nrow,w+1)), columns=list("abcdefg")[:w+1])
    P['df_renamed']= pd.DataFrame(rng.normal(size=(nrow,w)), columns=list("qrstuv")[:w])
    return P
for fam,stream in ((STREAM,True),(BATCH,False)):
  for name,spec in fam.items():
    mk,w=spec[0],spec[1]
    for seed in range(6):
        rng=np.random.default_rng(seed); r=random.Random(seed); L=14 if stream else 8
        usedf = seed%2==1
        cols=list("abcdefg")
        if stream: H=[(rng.normal(0 if i<L//2 else 4,1,size=(1,w))).round(3) for i in range(L if name!='PCACD' else 60)]
        else: H=[(rng.normal(0 if i<4 else 2,1,size=(12,w))).round(3) for i in range(L)]
        Hc=[pd.DataFrame(h,columns=cols[:w]) if usedf else h for h in H]
        # twin trace
        def runH(inject_at=None, payload=None):
            np.random.seed(1); d=mk(); tr=[]; k=0; status='ok'
            if not stream: d.set_reference(copy.deepcopy(Hc[0])); seq=Hc[1:]
            else: seq=Hc
            for i,h in enumerate([None]+list(seq)):
                if inject_at==i:
                    before=obs(d)
                    try: d.update(copy.deepcopy(payload)); status='ACCEPTED'
                    except ValueError as e:
                        status='rejected' if obs(d)[1:]==before[1:] else 'REJECTED_BUT_COUNTED'
                    except Exception as e: status='OTHER_EXC:'+type(e).__name__
                if h is None: continue
                np.random.seed(100+i)
                try: d.update(copy.deepcopy(h))
                except Exception as e: tr.append('EXC:'+type(e).__name__); break
                tr.append(obs(d))
            return tr,status
        base,_=runH()
        for kind,pl in bad_payloads(w,stream,rng).items():
            if usedf and kind in ('width+1','width-1') : pass
            for pos in range(0,len(base)+1, 1 if len(base)<20 else 7):
                tr,status=runH(pos,pl)
                later = 'same' if tr==base else 'LATER_DIFFERS'
                key=(name,'df-hist' if usedf else 'nd-hist',kind,'pos0' if pos==0 else 'pos>0',status,later)
                res[key]+=1
for k,v in sorted(res.items()):
    if k[4]!='rejected' or k[5]!='same': print(k,v)
print("clean combos:", sum(1 for k in res if k[4]=='rejected' and k[5]=='same'), "of", len(res))
