import random, itertools
from menelaus.ensemble import SimpleMajorityElection, MinimumApprovalElection, OrderedApprovalElection, ConfirmedElection
class D: 
    def __init__(s): s.drift_state=None
def confirmed_model(counters, votes, sens, wait):
    c=list(counters); nd=nw=0
    for i,v in enumerate(votes):
        if v=='drift' and c[i]==0: nd+=1; c[i]=1
        elif v=='warning': nw+=1
        elif c[i]!=0: nd+=1; c[i]+=1
    ret='drift' if nd>=sens else ('warning' if nd+nw>=sens else None)
    c=[0 if x>wait else x for x in c]
    return ret,c
bad=0; seen=set()
for seed in range(3000):
    r=random.Random(seed); n=r.randint(1,5); sens=r.randint(1,n+1); wait=r.randint(0,4)
    e=ConfirmedElection(sens,wait); ds=[D() for _ in range(n)]; c=[0]*n
    sm=SimpleMajorityElection(); a=r.randint(1,n+1); cc=r.randint(0,n); ma=MinimumApprovalElection(a); oa=OrderedApprovalElection(a,cc)
    regime=[r.choice([None,'warning','drift']) for _ in range(n)]
    for t in range(r.randint(5,40)):
        for i,d in enumerate(ds):
            if r.random()<.35: regime[i]=r.choice([None,None,'warning','drift'])
            d.drift_state=regime[i]
        votes=[d.drift_state for d in ds]
        seen.add((n,sens,wait,tuple(c),tuple(votes)))
        exp,c=confirmed_model(c,votes,sens,wait)
        got=e(ds)
        nd=votes.count('drift')
        if got!=exp or e.wait_period_counters!=c or max(c)>wait: bad+=1; print('CONF',seed,t); break
        if sm(ds)!=('drift' if nd>n//2 else None) or ma(ds)!=('drift' if nd>=a else None) or oa(ds)!=('drift' if nd>=a+cc else None): bad+=1; print('STATELESS',seed,t,votes,a,cc); break
print("bad",bad,"distinct (cfg,counters,votes)",len(seen))
