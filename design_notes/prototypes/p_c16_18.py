import numpy as np, pandas as pd, random, warnings
warnings.simplefilter("ignore")
from menelaus.concept_drift import DDM, EDDM, STEPD, LinearFourRates
from menelaus.change_detection import ADWIN, PageHinkley, CUSUM
from menelaus.data_drift import HDDDM, CDBD, KdqTreeBatch, NNDVI, KdqTreeStreaming, PCACD
from menelaus.partitioners import NNSpacePartitioner
def enc_pair(r, agree):
    kind=r.choice(['int','str','bool','float','multi','np','list','arr'])
    if kind=='int': a=r.randint(-5,5); b=a if agree else a+r.choice([1,-3])
    elif kind=='str': a=r.choice(['cat','dog','x']); b=a if agree else a+'_'
    elif kind=='bool': a=r.random()<.5; b=a if agree else (not a)
    elif kind=='float': a=round(r.random()*10,2); b=a if agree else a+.5
    elif kind=='multi': a=r.randint(0,6); b=a if agree else (a+r.randint(1,5))%7
    elif kind=='np': a=np.int64(r.randint(0,3)); b=a if agree else np.int64(a+1)
    elif kind=='list': a=[r.randint(0,3)]; b=[a[0]] if agree else [a[0]+1]
    else: a=np.array([r.randint(0,3)]); b=a.copy() if agree else a+1
    return a,b
JUNK=[None, object(), "junk", np.zeros((3,3)), [1,2,3], {'a':1}]
bad=[]
for seed in range(300):
    r=random.Random(seed); acc=.9; seq=[]
    for _ in range(r.randint(50,300)):
        if r.random()<.03: acc=r.choice([.95,.7,.4])
        seq.append(r.random()<acc)
    for name,mk in (('DDM',lambda: DDM(n_threshold=8)),('EDDM',lambda: EDDM(n_threshold=4)),('STEPD',lambda: STEPD(window_size=8))):
        p,t=mk(),mk()
        for i,ag in enumerate(seq):
            a,b=enc_pair(r,ag)
            try: p.update(a,b,X=r.choice(JUNK))
            except Exception as e: bad.append((name,seed,i,'EXC',repr(e)[:80],type(a).__name__)); break
            t.update(1,1 if ag else 0)
            if (p.drift_state,list(p.retraining_recs))!=(t.drift_state,list(t.retraining_recs)): bad.append((name,seed,i,'DIFF')); break
    # LFR cells
    np.random.seed(seed); p=LinearFourRates(burn_in=5,num_mc=10); np.random.seed(seed); t=LinearFourRates(burn_in=5,num_mc=10)
    for i,ag in enumerate(seq[:80]):
        yt=r.randint(0,1); yp=yt if ag else 1-yt
        form=r.choice(['int','bool','np','list','arr'])
        conv={'int':int,'bool':bool,'np':np.int64,'list':lambda v:[v],'arr':lambda v:np.array([v])}[form]
        try:
            np.random.seed(seed*1000+i); p.update(conv(yt),conv(yp),X=r.choice(JUNK))
        except Exception as e: bad.append(('LFR',seed,i,'EXC',form,repr(e)[:80])); break
        np.random.seed(seed*1000+i); t.update(yt,yp)
        if p.drift_state!=t.drift_state: bad.append(('LFR',seed,i,'DIFF',form)); break
    # unused y for change detectors
    xs=[round(r.gauss(0 if i<60 else 4,1),3) for i in range(120)]
    for name,mk in (('ADWIN',lambda: ADWIN(new_sample_thresh=4)),('PH',lambda: PageHinkley(burn_in=5,threshold=3)),('CUSUM',lambda: CUSUM(burn_in=8,threshold=6))):
        p,t=mk(),mk()
        for i,x in enumerate(xs):
            try: p.update(x,y_true=r.choice(JUNK),y_pred=r.choice(JUNK))
            except Exception as e: bad.append((name,seed,i,'EXC',repr(e)[:80])); break
            t.update(x)
            if p.drift_state!=t.drift_state: bad.append((name,seed,i,'DIFF')); break
from collections import Counter
print("C16 issues",len(bad), Counter((b[0],b[3]) for b in bad)); print(bad[:6])

# C18
bad=[]
def kdq_div(det):
    df=det.to_plotly_dataframe(); 
    return None if df is None else (df.cell_count.tolist(), df.count_diff.tolist())
for seed in range(200):
    r=random.Random(seed); rng=np.random.default_rng(seed); mu=0.0; n0=r.randint(12,40); equal=r.random()<.5
    bs=[]
    for i in range(r.randint(4,10)):
        if r.random()<.3: mu+=r.choice([-1.5,1.5])
        bs.append(rng.normal(mu,1,size=(n0 if equal else r.randint(12,40),2)).round(3))
    perm=[b[rng.permutation(len(b))] for b in bs]
    for name,mk,cmp_dec in (('HDDDM3',lambda: HDDDM(detect_batch=3),True),('HDDDM2',lambda: HDDDM(detect_batch=2),False),('KdqB',lambda: KdqTreeBatch(alpha=.1,bootstrap_samples=10,count_ubound=4),True),('NNDVI',lambda: NNDVI(k_nn=3,sampling_times=12,alpha=.1),True)):
        p,t=mk(),mk(); np.random.seed(seed); p.set_reference(perm[0].copy()); np.random.seed(seed); t.set_reference(bs[0].copy()); stop=False
        for k in range(1,len(bs)):
            np.random.seed(seed*100+k); p.update(perm[k].copy()); np.random.seed(seed*100+k); t.update(bs[k].copy())
            if name.startswith('HDDDM') and abs(p.current_distance-t.current_distance)>1e-12: bad.append((name,seed,k,'DIST',equal)); break
            if name=='KdqB' and abs((p._test_dist or 0)-(t._test_dist or 0))>1e-12: bad.append((name,seed,k,'DIV',equal)); break
            if cmp_dec and p.drift_state!=t.drift_state: bad.append((name,seed,k,'DEC',equal)); break
            if not cmp_dec and p.drift_state!=t.drift_state: break   # histories diverge legitimately
print("C18 issues",len(bad), Counter((b[0],b[3],b[4]) for b in bad)); print(bad[:5])
