import numpy as np, random, warnings
from collections import Counter
warnings.simplefilter("ignore")
from menelaus.data_drift import HDDDM, CDBD, KdqTreeBatch, NNDVI
issues=Counter(); ex={}; drifts=Counter()
def note(k,info): issues[k]+=1; ex.setdefault(k,info)
for seed in range(300):
    r=random.Random(seed); rng=np.random.default_rng(seed)
    db=r.choice([1,2,3]); kind=r.choice(['HDDDM','CDBD','KdqB','KdqB_noref','NNDVI'])
    w=1 if kind=='CDBD' else 2
    mk={'HDDDM':lambda:HDDDM(detect_batch=db),'CDBD':lambda:CDBD(detect_batch=db),'KdqB':lambda:KdqTreeBatch(alpha=.2,bootstrap_samples=6,count_ubound=3),'KdqB_noref':lambda:KdqTreeBatch(alpha=.2,bootstrap_samples=6,count_ubound=3),'NNDVI':lambda:NNDVI(k_nn=3,sampling_times=8,alpha=.2)}[kind]
    d=mk(); mu=0.0; name=kind+(str(db) if kind in('HDDDM','CDBD') else '')
    def batch(): return rng.normal(mu,1,size=(r.randint(10,30),w)).round(3)
    np.random.seed(seed)
    if kind!='KdqB_noref': d.set_reference(batch())
    hdm=kind in('HDDDM','CDBD'); proxies=1 if (hdm and db==1) else 0
    exp_tot=proxies; prev_state=None; prev_bsr=d.batches_since_reset
    if d.total_batches!=exp_tot: note((name,'total_after_ref'),(seed,d.total_batches))
    for t in range(r.randint(5,20)):
        if r.random()<.3: mu+=r.choice([-2,2])
        np.random.seed(seed*100+t); d.update(batch())
        exp_tot+=1
        if prev_state=='drift' and hdm and db==1: exp_tot+=1
        tot,bsr,st=d.total_batches,d.batches_since_reset,d.drift_state
        if tot!=exp_tot: note((name,'total'),(seed,t,tot,exp_tot))
        first_noref = kind=='KdqB_noref' and t==0
        if prev_state=='drift':
            rv = 2 if (hdm and db==1) else 1
            if bsr!=rv: note((name,'restart_value'),(seed,t,bsr))
        elif first_noref:
            if bsr!=0: note((name,'noref_first'),(seed,bsr))
        else:
            if bsr!=prev_bsr+1: note((name,'epoch_counter'),(seed,t,prev_bsr,bsr))
        if st is not None:
            if hdm:
                testb = bsr-proxies if db==1 else bsr   # test batches of the epoch
                need = {1:1,2:2,3:3}[db]
                if testb<need: note((name,'early_alarm'),(seed,t,bsr))
            if first_noref: note((name,'alarm_on_reference'),seed)
        drifts[name]+= st=='drift'; prev_state,prev_bsr=st,bsr
print("batch issues:")
for k,v in issues.items(): print(" ",k,v,ex[k])
print("drifts",dict(drifts))
