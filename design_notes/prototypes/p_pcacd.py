import numpy as np, pandas as pd, random, math, warnings
warnings.simplefilter("ignore")
from menelaus.data_drift import PCACD
from sklearn.decomposition import PCA
from sklearn.preprocessing import StandardScaler
from sklearn.neighbors import KernelDensity
from scipy.spatial.distance import jensenshannon

def kde_density(s):
    s=np.asarray(s,dtype=float); bw=1.06*np.std(s,ddof=1)*len(s)**(-1/5)
    k=KernelDensity(bandwidth=bw,kernel='epanechnikov').fit(s.reshape(-1,1)); return np.exp(k.score_samples(s.reshape(-1,1)))
def hist(s,bins,lo,hi):
    h=np.histogram(s,bins=bins,range=(lo,hi),density=True)[0]; return h/h.sum()
class PH:
    def __init__(s,delta,thr): s.delta,s.thr=delta,thr; s.xs=[]
    def update(s,x):
        s.xs.append(x); mean=0;sm=0;mn=0
        for i,v in enumerate(s.xs,1):
            mean=mean+(v-mean)/i; sm=sm+v-mean-s.delta; mn=min(mn,sm)
        return (sm-mn) > s.thr*mean and len(s.xs)>0
class Model:
    def __init__(s,w,ev,delta,metric,sp,percomp):
        s.w,s.ev,s.metric,s.percomp=w,ev,metric,percomp; s.step=min(100,round(sp*w)); s.bins=int(math.floor(math.sqrt(w)))
        s.delta=delta; s.thr=round(0.01*w); s.ph=PH(delta,s.thr); s.ref=[]; s.test=[]; s.building=True; s.total=0; s.state=None; s.scores=[0]; s.num_pcs=None
    def update(s,x):
        s.total+=1
        if s.building:
            if s.state is not None:
                s.ref=list(s.sc.inverse_transform(np.array(s.testS))); s.test=[]; s.testS=None; s.state=None; s.ph=PH(s.delta,s.thr)
                # sample discarded
            elif len(s.ref)<s.w: s.ref.append(x)
            elif len(s.test)<s.w: s.test.append(x)
            if len(s.test)==s.w:
                s.building=False
                s.sc=StandardScaler(); R=s.sc.fit_transform(np.array(s.ref)); T=s.sc.transform(np.array(s.test))
                s.pca=PCA(s.ev).fit(R); s.num_pcs=len(s.pca.components_)
                s.RP=s.pca.transform(R); s.TP=s.pca.transform(T); s.testS=[t for t in T]
                s.lo=[min(s.RP[:,i].min(),s.TP[:,i].min()) for i in range(s.num_pcs)]
                s.hi=[max(s.RP[:,i].max(),s.TP[:,i].max()) for i in range(s.num_pcs)]
                if not s.percomp: s.lo=[s.lo[-1]]*s.num_pcs; s.hi=[s.hi[-1]]*s.num_pcs   # emulate shared scalar
                s.refdens_lohi=[(min(s.RP[:,i].min(),s.TP[:,i].min()),max(s.RP[:,i].max(),s.TP[:,i].max())) for i in range(s.num_pcs)]
            return
        xs=s.sc.transform(x.reshape(1,-1))[0]; s.testS=s.testS[1:]+[xs]
        pr=s.pca.transform(xs.reshape(1,-1))[0]
        if s.metric=='intersection': pr=np.array([min(max(pr[i],s.lo[i]),s.hi[i]) for i in range(s.num_pcs)])
        s.TP=np.vstack([s.TP[1:],pr])
        if (s.total-1)%s.step==0 and s.total-1!=0:
            sc=[]
            for i in range(s.num_pcs):
                if s.metric=='kl': sc.append(jensenshannon(kde_density(s.RP[:,i]),kde_density(s.TP[:,i])))
                else:
                    rl,rh=s.refdens_lohi[i]   # reference density built with that component's own support
                    sc.append(1-np.sum(np.minimum(hist(s.RP[:,i],s.bins,rl,rh),hist(s.TP[:,i],s.bins,s.lo[i],s.hi[i]))))
            cs=max(sc); s.scores.append(cs)
            if s.ph.update(cs): s.building=True; s.state='drift'
def run(seed, metric, percomp):
    r=random.Random(seed); rng=np.random.default_rng(seed)
    d=r.randint(2,4); w=r.choice([20,30,40,60]); ev=r.choice([.7,.9,.99]); delta=r.choice([.01,.05,.1]); sp=r.choice([.05,.1,.2])
    if round(sp*w)==0: sp=.1
    det=PCACD(window_size=w,ev_threshold=ev,delta=delta,divergence_metric=metric,sample_period=sp)
    m=Model(w,ev,delta,metric,sp,percomp); mu=np.zeros(d); scale=np.array([r.choice([.3,1,3]) for _ in range(d)]); nd=0
    for t in range(r.randint(3*w,8*w)):
        if r.random()<0.01: mu=mu+rng.normal(0,3,size=d)
        x=(rng.normal(mu,scale)).round(4)
        det.update(x.reshape(1,-1).copy()); m.update(x)
        if det.drift_state!=m.state: return ('DEC',seed,t,det.drift_state,m.state,det.num_pcs)
        if len(det._change_score)!=len(m.scores) or not np.allclose(det._change_score,m.scores,atol=1e-9): return ('SCORE',seed,t,det.num_pcs,det._change_score[-1],m.scores[-1])
        if det.num_pcs!=m.num_pcs: return ('NPC',seed,t)
        nd+= m.state=='drift'
    return ('ok',nd,m.num_pcs)
for metric,percomp in (('kl',True),('intersection',False),('intersection',True)):
    res=[run(s,metric,percomp) for s in range(60)]
    bad=[x for x in res if x[0]!='ok']; print(metric,"percomp",percomp,"ok",len(res)-len(bad),"bad",len(bad),"drifts",sum(x[1] for x in res if x[0]=='ok'),"multiPC ok",sum(1 for x in res if x[0]=='ok' and x[2] and x[2]>1))
    for b in bad[:3]: print(b)

print("---- debug")
def dbg(seed):
    r=random.Random(seed); rng=np.random.default_rng(seed)
    d=r.randint(2,4); w=r.choice([20,30,40,60]); ev=r.choice([.7,.9,.99]); delta=r.choice([.01,.05,.1]); sp=r.choice([.05,.1,.2])
    if round(sp*w)==0: sp=.1
    det=PCACD(window_size=w,ev_threshold=ev,delta=delta,divergence_metric='intersection',sample_period=sp)
    m=Model(w,ev,delta,'intersection',sp,False); mu=np.zeros(d); scale=np.array([r.choice([.3,1,3]) for _ in range(d)])
    print("cfg",d,w,ev,delta,sp,"step",det.step,"thr",det.ph_threshold)
    for t in range(r.randint(3*w,8*w)):
        if r.random()<0.01: mu=mu+rng.normal(0,3,size=d)
        x=(rng.normal(mu,scale)).round(4)
        det.update(x.reshape(1,-1).copy()); m.update(x)
        if len(det._change_score)!=len(m.scores) or not np.allclose(det._change_score,m.scores,atol=1e-9) or det.drift_state!=m.state:
            print("t",t,"impl",det._change_score[-3:],det.drift_state,"model",m.scores[-3:],m.state,"npc",det.num_pcs,m.num_pcs)
            print("impl lower/upper",det.lower,det.upper,"model lo/hi",m.lo,m.hi)
            print("TP min/max per comp impl",det._test_pca_projection.min().values,det._test_pca_projection.max().values)
            print("TP min/max model",m.TP.min(axis=0),m.TP.max(axis=0))
            mon=det._drift_detection_monitor
            print("PH impl sum,min,mean",mon._sum,mon._min,mon._mean, "n",mon.samples_since_reset)
            return
dbg(39); dbg(51)
