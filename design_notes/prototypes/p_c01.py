import numpy as np, pandas as pd, random, warnings
from collections import Counter
warnings.simplefilter("ignore")
from menelaus.change_detection import ADWIN, PageHinkley, CUSUM
from menelaus.concept_drift import DDM, EDDM, STEPD, LinearFourRates
from menelaus.data_drift import KdqTreeStreaming, PCACD, HDDDM, CDBD, KdqTreeBatch, NNDVI
issues=Counter(); ex={}; drifts=Counter()
def note(k,info):
    issues[k]+=1; ex.setdefault(k,info)
def stream_run(name, mk, kind, seed, restart=1, minage=None, extra_restart=None):
    r=random.Random(seed); d,params=mk(r); mu=0.0; acc=.92; prev_state=None; prev_tot=0; prev_ssr=0; nerr=0; recs_pending=False
    for t in range(r.randint(80,400)):
        if r.random()<.02: mu+=r.choice([-4,4,2]); acc=r.choice([.95,.6,.3])
        np.random.seed(seed*1000+t)
        if kind=='x': d.update(round(r.gauss(mu,1),4))
        elif kind=='xx': d.update(np.array([[round(r.gauss(mu,1),4),round(r.gauss(-mu,1),4),round(r.gauss(0,1),4)]]))
        else:
            yt=r.randint(0,1); ok=r.random()<acc; d.update(yt, yt if ok else 1-yt)
        st=d.drift_state; tot=d.total_samples; ssr=d.samples_since_reset
        if st not in (None,'warning','drift'): note((name,'state'),seed)
        if tot!=prev_tot+1: note((name,'total'),(seed,t,tot))
        must_restart = prev_state=='drift' or (name.startswith('ADWIN') and prev_state is not None)
        er = extra_restart(d,params,ssr) if extra_restart else False
        if must_restart:
            if ssr!=restart and not er: note((name,'restart_value'),(seed,t,ssr))
        else:
            if ssr!=prev_ssr+1 and not er: note((name,'epoch_counter'),(seed,t,prev_ssr,ssr))
        if kind=='y':
            if must_restart: nerr=0
            nerr+= (not ok)
        if st is not None and minage is not None and not minage(d,params,ssr,nerr,tot): note((name,'early_alarm'),(seed,t,ssr,st,params))
        if hasattr(d,'retraining_recs'):
            rc=d.retraining_recs
            if st=='drift' and not (rc[0] is not None and rc[0]<=rc[1]==tot-1): note((name,'recs'),(seed,t,list(rc),tot))
            if prev_state=='drift' and not name.startswith('STEPD') and st is None and list(rc)!=[None,None]: note((name,'recs_not_cleared'),(seed,t,list(rc)))
            if prev_state=='drift' and st!='drift' and rc[1] is not None and st is None: note((name,'recs_not_cleared2'),(seed,t,list(rc)))
        drifts[name]+= st=='drift'
        prev_state,prev_tot,prev_ssr=st,tot,ssr
for seed in range(120):
    stream_run('ADWIN', lambda r:(lambda p:(ADWIN(**p),p))(dict(delta=r.choice([.002,.1,.5]),max_buckets=r.randint(2,5),new_sample_thresh=r.choice([1,3,8]),window_size_thresh=r.randint(0,10),subwindow_size_thresh=r.randint(1,5))),'x',seed,
               minage=lambda d,p,ssr,ne,tot: tot%p['new_sample_thresh']==0)
    stream_run('PH', lambda r:(lambda p:(PageHinkley(**p),p))(dict(burn_in=r.choice([0,1,5,20]),threshold=r.choice([2,5]),direction=r.choice(['positive','negative']))),'x',seed, minage=lambda d,p,ssr,ne,tot: ssr>p['burn_in'])
    stream_run('CUSUM', lambda r:(lambda p:(CUSUM(**p),p))(dict(burn_in=r.choice([2,5,20]),threshold=r.choice([4,8]),delta=.25)),'x',seed, minage=lambda d,p,ssr,ne,tot: ssr>p['burn_in'])
    stream_run('DDM', lambda r:(lambda p:(DDM(**p),p))(dict(n_threshold=r.choice([1,2,10,30]))),'y',seed, minage=lambda d,p,ssr,ne,tot: ssr>=p['n_threshold'])
    stream_run('EDDM', lambda r:(lambda p:(EDDM(**p),p))(dict(n_threshold=r.choice([1,2,5,10]))),'y',seed, minage=lambda d,p,ssr,ne,tot: ne>=p['n_threshold'])
    stream_run('STEPD', lambda r:(lambda p:(STEPD(**p),p))(dict(window_size=r.choice([1,2,8,15]))),'y',seed, minage=lambda d,p,ssr,ne,tot: ssr>=2*p['window_size'])
    stream_run('LFR', lambda r:(lambda p:(LinearFourRates(num_mc=8,**p),p))(dict(burn_in=r.choice([0,1,10]),subsample=r.choice([1,3]))),'y',seed, minage=lambda d,p,ssr,ne,tot: ssr>p['burn_in'] and ssr%p['subsample']==0)
    stream_run('KdqS', lambda r:(lambda p:(KdqTreeStreaming(alpha=.3,bootstrap_samples=6,count_ubound=2,**p),p))(dict(window_size=r.choice([2,5,10]),persistence=r.choice([.1,.3]))),'xx',seed,
               minage=lambda d,p,ssr,ne,tot: ssr>=p['window_size']+ int(p['persistence']*p['window_size']), extra_restart=lambda d,p,ssr: ssr==0)
    stream_run('PCACD', lambda r:(lambda p:(PCACD(divergence_metric='kl',**p),p))(dict(window_size=r.choice([20,30]),sample_period=.1)),'xx',seed, restart=0,
               minage=lambda d,p,ssr,ne,tot: True)
print("stream issues:"); 
for k,v in issues.items(): print(" ",k,v,ex[k])
print("drifts",dict(drifts))
