# feasibility: deterministic baton scheduler for LFR(parallelize=True) via module seam + settrace
import sys, threading, random, hashlib, warnings, time
warnings.simplefilter("ignore")
import numpy as np
import menelaus.concept_drift.lfr as lfrmod
from menelaus.concept_drift import LinearFourRates
LFR_FILE = lfrmod.__file__

class Sched:
    def __init__(self, seed, p_switch=0.2):
        self.rng = random.Random(seed); self.p = p_switch
        self.threads = []; self.log = []; self.switches = 0
    def run(self, tasks):
        self.done = [False]*len(tasks); self.sems=[threading.Semaphore(0) for _ in tasks]
        self.main = threading.Semaphore(0); self.errors=[]
        def worker(i, fn, a, kw):
            self.sems[i].acquire()
            sys.settrace(lambda fr, ev, arg, i=i: self._trace(i, fr, ev, arg))
            try: fn(*a, **kw)
            except BaseException as e: self.errors.append(e)
            finally:
                sys.settrace(None); self.done[i]=True; self._handoff(i, finished=True)
        ths=[threading.Thread(target=worker, args=(i,)+t) for i,t in enumerate(tasks)]
        for t in ths: t.start()
        first = self.rng.randrange(len(tasks)); self.log.append(('start', first))
        self.sems[first].release(); self.main.acquire()
        for t in ths: t.join()
        if self.errors: raise self.errors[0]
    def _runnable(self, me): return [j for j,d in enumerate(self.done) if not d and j!=me]
    def _handoff(self, me, finished=False):
        cand = self._runnable(me)
        if not cand:
            if finished: self.main.release()
            return
        nxt = self.rng.choice(cand); self.switches += 1; self.log.append((me, nxt))
        self.sems[nxt].release()
        if not finished: self.sems[me].acquire()
    def _trace(self, i, frame, event, arg):
        if frame.f_code.co_filename != LFR_FILE: return None
        frame.f_trace_opcodes = True
        def local(fr, ev, arg):
            if ev in ('line','opcode') and self.rng.random() < self.p:
                self._handoff(i)
            return local
        return local

class SimParallel:
    sched_seed = 0; stats = {'calls':0,'switches':0}
    def __init__(self, **kw): pass
    def __call__(self, tasks):
        tasks = list(tasks)
        s = Sched(SimParallel.sched_seed + SimParallel.stats['calls'], 0.05)
        SimParallel.stats['calls'] += 1
        s.run(tasks); SimParallel.stats['switches'] += s.switches
def sim_delayed(f): return lambda *a, **k: (f, a, k)

lfrmod.Parallel = SimParallel; lfrmod.delayed = sim_delayed
def run(seed):
    SimParallel.sched_seed = seed*1000; SimParallel.stats={'calls':0,'switches':0}
    r = random.Random(seed); np.random.seed(seed)
    d = LinearFourRates(num_mc=15, burn_in=5, parallelize=True, round_val=2)
    tr=[]
    for i in range(60):
        yt = int(r.random()<0.5); yp = yt if r.random()< (0.9 if i<30 else 0.4) else 1-yt
        d.update(yt, yp); tr.append(d.drift_state)
    return hashlib.sha1(repr(tr).encode()).hexdigest()[:10], dict(SimParallel.stats)
t0=time.time()
for seed in range(3):
    a = run(seed); b = run(seed); print(seed, a, b, a==b)
print("time", time.time()-t0)
