import numpy as np, pandas as pd, random, math, warnings, scipy.stats
from scipy.spatial.distance import jensenshannon
warnings.simplefilter("ignore")
from menelaus.data_drift import HDDDM, CDBD

def hell(r,t):
    R,T=r.sum(),t.sum(); return math.sqrt(sum((math.sqrt(tb/T)-math.sqrt(rb/R))**2 for rb,tb in zip(r,t)))
def dist(ref, X, div):
    bins=int(math.floor(math.sqrt(len(ref)))); ds=[]
    for f in range(ref.shape[1]):
        lo=min(ref[:,f].min(),X[:,f].min()); hi=max(ref[:,f].max(),X[:,f].max())
        hr=np.histogram(ref[:,f],bins=bins,range=(lo,hi))[0]; ht=np.histogram(X[:,f],bins=bins,range=(lo,hi))[0]
        ds.append(hell(hr,ht) if div=='H' else jensenshannon(hr,ht))
    return sum(ds)/len(ds), ds
class Spec:
    def __init__(s, div, db, stat, sig):
        s.div,s.db,s.stat,s.sig=div,db,stat,sig
    def start_epoch(s, ref):
        s.j=0; s.eps=[]; s.prev=None; s.pending_drift=False
        if s.db==1:
            h=int(len(ref)/2); s.ref=ref[:h]; s.step(ref[h:], None)   # proxy batch counted
        else: s.ref=ref
    def step(s, X, eps0):
        # returns (distance, epsilon or None, beta or None, drift)
        s.j+=1
        d,_=dist(s.ref,X,s.div); e=b=None; drift=False
        if s.j>=2:
            e=abs(d-s.prev)
            if s.j==2 and s.db!=3: prevs=[eps0]; dsc=1
            else: prevs=list(s.eps); dsc=s.j-1
            if (s.db!=3 and s.j>=2) or (s.db==3 and s.j>=3):
                eh=sum(prevs)/dsc; sd=math.sqrt(sum((x-eh)**2 for x in prevs)/dsc)
                if s.stat=='tstat':
                    b=eh+scipy.stats.t.ppf(1-s.sig/2, len(s.ref)+len(X)-2)*sd/math.sqrt(dsc)
                else: b=eh+s.sig*sd
                drift = e>b
            s.eps.append(e)
        if drift: s.next_ref=X
        else:
            s.prev=d; s.ref=np.vstack([s.ref,X])
        return d,e,b,drift

def run(seed):
    r=random.Random(seed); rng=np.random.default_rng(seed)
    cls=r.choice([HDDDM,CDBD]); db=r.choice([1,2,3]); stat=r.choice(['tstat','stdev']); sig=r.choice([.05,.2,.5]) if stat=='tstat' else r.choice([.5,1,2])
    nf=1 if cls is CDBD else r.randint(1,3); div='H' if cls is HDDDM else 'KL'
    det=cls(detect_batch=db, statistic=stat, significance=sig, subsets=r.randint(2,5))
    mu=0.0
    def batch():
        return rng.normal(mu,1,size=(r.randint(8,60),nf)).round(4)
    ref=batch(); np.random.seed(seed); det.set_reference(ref.copy())
    sp=Spec(div,db,stat,sig); sp.start_epoch(ref); nd=0
    for t in range(r.randint(4,25)):
        if r.random()<0.2: mu+=r.choice([-2,2,1])
        X=batch()
        if det.drift_state=='drift': sp.start_epoch(sp.next_ref)
        np.random.seed(seed*1000+t); det.update(X.copy())
        eps0 = det.epsilon[0] if (sp.j+1==2 and db!=3) else None
        d,e,b,drift=sp.step(X,eps0)
        if abs(d-det.current_distance)>1e-9: return ('DIST',seed,t,d,det.current_distance,db)
        if e is not None and abs(e-det.epsilon[-1])>1e-9: return ('EPS',seed,t,e,det.epsilon,db)
        if b is not None and abs(b-det.beta)>1e-9*max(1,abs(b)): return ('BETA',seed,t,b,det.beta,db,sp.j)
        if drift != (det.drift_state=='drift'): return ('DEC',seed,t,drift,det.drift_state,db)
        if det.batches_since_reset!=sp.j: return ('CNT',seed,t,det.batches_since_reset,sp.j)
        nd+=drift
    return ('ok',nd)
res=[run(s) for s in range(400)]
bad=[x for x in res if x[0]!='ok']; print("ok",len(res)-len(bad),"bad",len(bad),"drifts",sum(x[1] for x in res if x[0]=='ok'), "runs>=2 drifts", sum(1 for x in res if x[0]=='ok' and x[1]>=2))
for b in bad[:8]: print(b)
