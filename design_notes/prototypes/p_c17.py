import numpy as np, random, warnings
warnings.simplefilter("ignore")
from menelaus.change_detection import ADWIN, CUSUM, PageHinkley
from menelaus.concept_drift import DDM, EDDM, STEPD, LinearFourRates
from menelaus.data_drift import HDDDM, CDBD, KdqTreeBatch, KdqTreeStreaming, NNDVI
def first(det_states, what='drift'):
    for i,s in enumerate(det_states):
        if s==what: return i
    return None
def stream_vals(r, n):
    mu=0.0; out=[]
    for _ in range(n):
        if r.random()<.02: mu+=r.choice([-3,3,1.5])
        out.append(round(r.gauss(mu,1),4))
    return out
def outcomes(r,n):
    acc=.9; out=[]
    for _ in range(n):
        if r.random()<.03: acc=r.choice([.95,.7,.4])
        yt=r.randint(0,1); out.append((yt, yt if r.random()<acc else 1-yt))
    return out
def run_pair(mk_loose, mk_strict, feed, seed, n):
    tr=[]
    for mk in (mk_loose, mk_strict):
        d=mk(); st=[]
        for k,ev in enumerate(feed):
            np.random.seed(seed*100000+k); 
            if isinstance(ev,tuple) and ev[0]=='ref': d.set_reference(ev[1].copy()); continue
            if isinstance(ev,tuple): d.update(ev[0],ev[1])
            elif isinstance(ev,np.ndarray): d.update(ev.copy())
            else: d.update(ev)
            st.append(d.drift_state)
            if d.drift_state=='drift': break
        tr.append(st)
    fl,fs=first(tr[0]),first(tr[1])
    ok = (fl is None and fs is None) or (fl is not None and (fs is None or fs>=fl))
    return ok, fl, fs
viol=[]; n_pairs=0; informative=0
for seed in range(300):
    r=random.Random(seed)
    xs=stream_vals(r,300); oc=outcomes(r,300)
    fams=[
     ('ADWIN', lambda: ADWIN(delta=.3,new_sample_thresh=4), lambda: ADWIN(delta=.01,new_sample_thresh=4), xs),
     ('CUSUM', lambda: CUSUM(burn_in=10,threshold=5,delta=.25), lambda: CUSUM(burn_in=10,threshold=12,delta=.25), xs),
     ('PH+', lambda: PageHinkley(burn_in=10,threshold=3), lambda: PageHinkley(burn_in=10,threshold=9), xs),
     ('PH-', lambda: PageHinkley(burn_in=10,threshold=3,direction='negative'), lambda: PageHinkley(burn_in=10,threshold=9,direction='negative'), xs),
     ('DDM', lambda: DDM(n_threshold=10,drift_scale=2.5), lambda: DDM(n_threshold=10,drift_scale=3.5), oc),
     ('EDDM', lambda: EDDM(n_threshold=5,drift_thresh=.9), lambda: EDDM(n_threshold=5,drift_thresh=.8,warning_thresh=.95), oc),
     ('STEPD', lambda: STEPD(window_size=10,alpha_drift=.05,alpha_warning=.1), lambda: STEPD(window_size=10,alpha_drift=.003,alpha_warning=.1), oc),
     ('LFR', lambda: LinearFourRates(burn_in=10,num_mc=15,detect_level=.1,warning_level=.2), lambda: LinearFourRates(burn_in=10,num_mc=15,detect_level=.02,warning_level=.2), oc[:120]),
    ]
    rng=np.random.default_rng(seed); mu=0.0; bs=[]
    for i in range(12):
        if r.random()<.25: mu+=r.choice([-1.5,1.5])
        bs.append(rng.normal(mu,1,size=(r.randint(15,40),2)).round(3))
    bfeed=[('ref',bs[0])]+bs[1:]
    b1=[('ref',bs[0][:,:1])]+[b[:,:1] for b in bs[1:]]
    fams+=[
     ('HDDDM t', lambda: HDDDM(detect_batch=3,significance=.2), lambda: HDDDM(detect_batch=3,significance=.01), bfeed),
     ('HDDDM sd', lambda: HDDDM(detect_batch=2,statistic='stdev',significance=.5), lambda: HDDDM(detect_batch=2,statistic='stdev',significance=2.0), bfeed),
     ('CDBD t', lambda: CDBD(detect_batch=1,significance=.2), lambda: CDBD(detect_batch=1,significance=.01), b1),
     ('KdqB', lambda: KdqTreeBatch(alpha=.3,bootstrap_samples=15,count_ubound=4), lambda: KdqTreeBatch(alpha=.02,bootstrap_samples=15,count_ubound=4), bfeed),
     ('NNDVI', lambda: NNDVI(k_nn=3,sampling_times=15,alpha=.3), lambda: NNDVI(k_nn=3,sampling_times=15,alpha=.02), bfeed),
    ]
    xs2=[np.array([[a,b]]) for a,b in zip(xs[:200],stream_vals(r,200))]
    fams.append(('KdqS', lambda: KdqTreeStreaming(window_size=15,persistence=.2,alpha=.3,bootstrap_samples=10,count_ubound=3), lambda: KdqTreeStreaming(window_size=15,persistence=.2,alpha=.02,bootstrap_samples=10,count_ubound=3), xs2))
    for name,ml,ms,feed in fams:
        ok,fl,fs=run_pair(ml,ms,feed,seed,0); n_pairs+=1; informative+= fl is not None
        if not ok: viol.append((name,seed,fl,fs))
print("pairs",n_pairs,"loose alarmed in",informative,"violations",len(viol)); print(viol[:10])
