import numpy as np, random, math, warnings
warnings.simplefilter("ignore")
import menelaus.data_drift.nndvi as nm
from menelaus.data_drift import NNDVI
from menelaus.partitioners import NNSpacePartitioner
from scipy.stats import norm
class RandProxy:
    def __init__(s, log): s.log=log
    def __getattr__(s, name):
        f=getattr(np.random,name)
        def w(*a,**k):
            out=f(*a,**k); s.log.append((name,a,k,out)); return out
        return w
class NpProxy:
    def __init__(s, log): s.random=RandProxy(log)
    def __getattr__(s,name): return getattr(np,name)
LOG=[]; nm.np=NpProxy(LOG)
def model_dist(D, k, v1, v2):
    n=len(D); dm=np.linalg.norm(D[:,None,:]-D[None,:,:],axis=2)
    A=np.zeros((n,n))
    for i in range(n):
        idx=np.argsort(dm[i],kind='stable')[:k]; A[i,idx]=1
    m1=v1@A; m2=v2@A
    return float(np.sum(np.abs(m1-m2)/(m1+m2))/n), A
def run(seed, equal):
    r=random.Random(seed); rng=np.random.default_rng(seed)
    d=r.randint(1,3); k=r.randint(2,5); S=r.randint(10,40); alpha=r.choice([.01,.1,.3])
    det=NNDVI(k_nn=k,sampling_times=S,alpha=alpha); mu=0.0
    n0=r.randint(8,30)
    def batch(): 
        n=n0 if equal else r.randint(8,30)
        return rng.normal(mu,1,size=(n,d)).round(2)
    ref=batch(); det.set_reference(ref.copy()); nd=0
    for t in range(r.randint(3,10)):
        if r.random()<.3: mu+=r.choice([-1.5,1.5])
        X=batch()
        del LOG[:]; np.random.seed(seed*100+t); det.update(X.copy())
        D=np.unique(np.vstack([ref,X]),axis=0)
        v1=np.array([float(any((row==q).all() for q in ref)) for row in D]); v2=np.array([float(any((row==q).all() for q in X)) for row in D])
        p=NNSpacePartitioner(k); p.build(ref,X)
        if not (np.array_equal(p.v1,v1) and np.array_equal(p.v2,v2)): return ('MEMBER',seed,t,len(ref),len(X))
        dact,A=model_dist(D,k,v1,v2)
        perms=[c[3] for c in LOG if c[0]=='permutation']
        if len(perms)!=S: return ('NPERM',len(perms))
        ds=[model_dist(D,k,q,1-q)[0] for q in perms]
        mu_,sd_=norm.fit(ds); th=norm.ppf(1-alpha,mu_,sd_)
        drift=dact>th
        if drift!=(det.drift_state=='drift'): return ('DEC',seed,t,dact,th)
        if drift: ref=X; nd+=1
        if not np.array_equal(det.reference_batch, ref): return ('REF',seed,t)
    return ('ok',nd)
for equal in (True,False):
    res=[run(s,equal) for s in range(120)]
    bad=[x for x in res if x[0]!='ok']; print("equal sizes" if equal else "unequal", "ok",len(res)-len(bad),"bad",len(bad),"drifts",sum(x[1] for x in res if x[0]=='ok'))
    for b in bad[:3]: print(b)
