import numpy as np, random, math, warnings, threading, scipy.stats
warnings.simplefilter("ignore")
import menelaus.data_drift.kdq_tree as km
from menelaus.data_drift import KdqTreeBatch, KdqTreeStreaming
class RandProxy:
    def __init__(s, log): s.log=log
    def __getattr__(s, name):
        f=getattr(np.random,name)
        def w(*a,**k):
            out=f(*a,**k); s.log.append((name,a,k,out)); return out
        return w
class NpProxy:
    def __init__(s, log): s.random=RandProxy(log)
    def __getattr__(s,name): return getattr(np,name)
LOG=[]; km.np=NpProxy(LOG)

def leaves(node, out):
    if node.axis is None: out.append(node); return
    leaves(node.left,out); leaves(node.right,out)
def leaf_index(root, lv, x):
    n=root
    while n.axis is not None:
        n = n.left if x[n.axis] <= n.midpoint_at_axis else n.right
    return lv.index(n)
def counts(root, lv, X):
    c=np.zeros(len(lv))
    for x in X: c[leaf_index(root,lv,x)]+=1
    return c
def distn(c): return (c+.5)/(c.sum()+len(c)/2)
def kl(a,b): return float(np.sum(a*np.log(a/b)))
def check_tree(node, pts, depth, ub, d):
    # structural rule check; returns list of problems
    n=len(pts)
    if node.axis is None:
        return [] 
    ax=depth%d; probs=[]
    if node.axis!=ax: probs.append(('axis',depth))
    mid=pts[:,ax].min()+np.ptp(pts[:,ax])/2
    if abs(mid-node.midpoint_at_axis)>1e-12: probs.append(('mid',depth))
    if n<=ub: probs.append(('split_small',n))
    lo=pts[pts[:,ax]<=node.midpoint_at_axis]; hi=pts[pts[:,ax]>node.midpoint_at_axis]
    if node.num_samples_in_compared_subtrees['build']!=n: probs.append(('count',n))
    return probs+check_tree(node.left,lo,depth+1,ub,d)+check_tree(node.right,hi,depth+1,ub,d)
def crit_from_log(ref_counts, n, alpha, B):
    calls=[c for c in LOG if c[0]=='choice']
    assert len(calls)==B, (len(calls),B)
    p=distn(ref_counts); ds=[]
    for c in calls:
        assert c[2]['size']==2*n and np.allclose(c[2]['p'],p), "args"
        s=c[3]; h1=np.bincount(s[:n],minlength=len(p)); h2=np.bincount(s[n:],minlength=len(p))
        ds.append(kl(distn(h1.astype(float)),distn(h2.astype(float))))
    return np.quantile(ds,1-alpha,method='nearest')
def run_batch(seed):
    r=random.Random(seed); rng=np.random.default_rng(seed)
    d=r.randint(1,3); ub=r.randint(2,12); alpha=r.choice([.01,.05,.2]); B=r.randint(5,30)
    det=KdqTreeBatch(alpha=alpha,bootstrap_samples=B,count_ubound=ub)
    mu=0.0
    def batch(): return rng.normal(mu,1,size=(r.randint(10,80),d)).round(3)
    ref=batch(); del LOG[:]; np.random.seed(seed); det.set_reference(ref.copy())
    nd=0; pending=None
    for t in range(r.randint(3,15)):
        if r.random()<.3: mu+=r.choice([-1.5,1.5,.7])
        X=batch(); 
        if pending is not None: ref=pending; pending=None; del LOG[:]
        np.random.seed(seed*100+t); det.update(X.copy())
        root=det._kdqtree.node; lv=[]; leaves(root,lv)
        pr=check_tree(root,ref,0,ub,d)
        if pr: return ('TREE',seed,t,pr[:3])
        rc=counts(root,lv,ref); tc=counts(root,lv,X)
        if list(rc)!=det._kdqtree.leaf_counts('build') or list(tc)!=det._kdqtree.leaf_counts('test'): return ('COUNTS',seed,t)
        crit=crit_from_log(rc,len(ref),alpha,B)
        if abs(crit-det._critical_dist)>1e-12: return ('CRIT',seed,t,crit,det._critical_dist)
        dv=kl(distn(rc),distn(tc)); drift=dv>crit
        if drift!=(det.drift_state=='drift'): return ('DEC',seed,t)
        if drift: pending=X; nd+=1
    return ('ok',nd)
res=[run_batch(s) for s in range(200)]
bad=[x for x in res if x[0]!='ok']; print("batch ok",len(res)-len(bad),"bad",len(bad),"drifts",sum(x[1] for x in res if x[0]=='ok'))
for b in bad[:6]: print(b)

def run_stream(seed, in_a_row):
    r=random.Random(seed); rng=np.random.default_rng(seed)
    d=r.randint(1,2); ub=r.randint(2,6); alpha=r.choice([.05,.2,.4]); B=r.randint(5,20); w=r.randint(8,25); pers=r.choice([.1,.2,.4])
    det=KdqTreeStreaming(window_size=w,persistence=pers,alpha=alpha,bootstrap_samples=B,count_ubound=ub)
    phase='ref'; refbuf=[]; tc=None; ntest=0; ctr=0; mu=0.0; nd=0; brk=0
    for t in range(r.randint(60,300)):
        if r.random()<.06: mu=r.choice([0,0,2.5,-2.5])
        x=rng.normal(mu,1,size=(1,d)).round(3)
        if det.drift_state=='drift': phase='ref'; refbuf=[]; 
        del LOG[:]; np.random.seed(seed*1000+t); det.update(x.copy())
        exp=None
        if phase=='ref':
            refbuf.append(x[0])
            if len(refbuf)==w:
                ref=np.array(refbuf); root=det._kdqtree.node; lv=[]; leaves(root,lv); rc=counts(root,lv,ref)
                crit=crit_from_log(rc,w,alpha,B); tc=np.zeros(len(lv)); ntest=0; ctr=0; phase='test'
        else:
            tc[leaf_index(root,lv,x[0])]+=1; ntest+=1
            if ntest>=w:
                if kl(distn(rc),distn(tc))>crit:
                    ctr+=1
                    if ctr>pers*w: exp='drift'
                else:
                    if ctr>0: brk+=1
                    if in_a_row: ctr=0
        if exp!=det.drift_state: return ('DEC',seed,t,exp,det.drift_state,brk)
        nd+= exp=='drift'
    return ('ok',nd,brk)
for mode in (False,True):
    res=[run_stream(s,mode) for s in range(200)]
    bad=[x for x in res if x[0]!='ok']; print("stream in_a_row=%s ok"%mode,len(res)-len(bad),"bad",len(bad),"drifts",sum(x[1] for x in res if x[0]=='ok'),"runs with broken exceed-runs",sum(1 for x in res if x[0]=='ok' and x[2]>0))
    for b in bad[:3]: print(b)
