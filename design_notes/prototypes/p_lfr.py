import numpy as np, random, math, warnings, threading
warnings.simplefilter("ignore")
import menelaus.concept_drift.lfr as lfrmod
from menelaus.concept_drift import LinearFourRates

class RandProxy:
    def __init__(s, log): s.log=log
    def __getattr__(s, name):
        f=getattr(np.random,name)
        def w(*a,**k):
            out=f(*a,**k); s.log.append((name,a,k,threading.get_ident(),out)); return out
        return w
class NpProxy:
    def __init__(s, log): s.random=RandProxy(log)
    def __getattr__(s,name): return getattr(np,name)
LOG=[]
lfrmod.np=NpProxy(LOG)

RATES=['tpr','tnr','ppv','npv']
def rates(C):
    tn,fn,fp,tp=C[0][0],C[0][1],C[1][0],C[1][1]
    return {'tpr':tp/(tp+fn),'tnr':tn/(tn+fp),'ppv':tp/(fp+tp),'npv':tn/(tn+fn)}, {'tpr':tp+fn,'tnr':tn+fp,'ppv':fp+tp,'npv':tn+fn}
def run(seed):
    r=random.Random(seed)
    eta=r.choice([.5,.8,.9,.99]); wl=r.choice([.3,.2,.1]); dl=wl*r.choice([1,.5,.2]); burn=r.randint(0,20); sub=r.choice([1,1,2,5]); rv=r.choice([1,2,4])
    tracked=[x for x in RATES if r.random()<.7] or ['tpr']; mc=r.randint(5,25)
    det=LinearFourRates(time_decay_factor=eta,warning_level=wl,detect_level=dl,burn_in=burn,num_mc=mc,subsample=sub,rates_tracked=tracked,round_val=rv)
    C=[[1,1],[1,1]]; R={k:.5 for k in RATES}; n=0; cache={}; acc=.9; nd=0; firstwarn=None
    for t in range(r.randint(30,150)):
        if r.random()<.03: acc=r.choice([.9,.6,.3])
        yt=r.randint(0,1); yp=yt if r.random()<acc else 1-yt
        if det.drift_state=='drift': C=[[1,1],[1,1]]; R={k:.5 for k in RATES}; n=0; firstwarn=None
        del LOG[:]; np.random.seed(seed*10000+t)
        det.update(yt,yp); n+=1
        old,_=rates(C); C[yp][yt]+=1; new,den=rates(C)
        for k in tracked:
            if new[k]!=old[k]: R[k]=eta*R[k]+(1-eta)*(yt==yp)
        # group draws into simulations
        sims={}; i=0
        calls=[c for c in LOG if c[0]=='binomial']
        while i<len(calls):
            p=calls[i][2]['p']; N=calls[i][2]['size']; grp=calls[i:i+mc]
            assert len(grp)==mc and all(g[2]['p']==p and g[2]['size']==N and g[2]['n']==1 for g in grp), "shape"
            w=np.array([eta**(N-j) for j in range(1,N+1)])
            vals=[(1-eta)*float(np.sum(w*g[4])) for g in grp]
            b=dict(lw=np.percentile(vals,wl*100),uw=np.percentile(vals,100-wl*100),ld=np.percentile(vals,dl*100),ud=np.percentile(vals,100-dl*100))
            sims[(p,N)]=b; cache.setdefault((round(np.float64(p),rv),N),b); i+=mc
        st=None; warn=alarm=False
        if n>burn and n%sub==0:
            for k in tracked:
                b=sims.get((new[k],den[k])) or cache.get((round(np.float64(new[k]),rv),den[k]))
                if b is None: return ('NOSIM',seed,t,k)
                warn|= (R[k]<b['lw'])|(R[k]>b['uw']); alarm|=(R[k]<b['ld'])|(R[k]>b['ud'])
        else:
            if calls: return ('UNEXPECTED_SIM',seed,t)
        st='drift' if alarm else ('warning' if warn else None)
        if st!=det.drift_state: return ('DEC',seed,t,st,det.drift_state,dict(eta=eta,wl=wl,dl=dl,burn=burn,sub=sub,rv=rv,tracked=tracked))
        nd+= st=='drift'
    return ('ok',nd)
res=[run(s) for s in range(300)]
bad=[x for x in res if x[0]!='ok']; print("ok",len(res)-len(bad),"bad",len(bad),"drifts",sum(x[1] for x in res if x[0]=='ok'))
for b in bad[:6]: print(b)
