import numpy as np, random, math, warnings, scipy.stats
warnings.simplefilter("ignore")
from menelaus.concept_drift import DDM, EDDM, STEPD
from menelaus.change_detection import PageHinkley, CUSUM

def ddm_spec(outs, nthr, ws, ds):
    # outs: list of errors (1=error) in epoch; returns list of states, first-warning idx (epoch-rel)
    states=[]; p=0.0; s=0.0; pmin=smin=float('inf'); st=None
    for n,x in enumerate(outs,1):
        pprev=p; p = p+(x-p)/n; s = s+(x-p)*(x-pprev); s=math.sqrt(s/n)
        if n>=nthr:
            if p+s <= pmin+smin: pmin,smin=p,s
            if p+s >= pmin+ds*s: st='drift'
            elif p+s >= pmin+ws*s: st='warning'
            else: st=None
        states.append(st)
    return states
def eddm_spec(outs, nthr, wt, dt):
    # outs: 1=correct
    states=[]; st=None; ne=0; cur=0; mean=np.float64(0); sd=np.float64(0); mx=np.float64(0)
    for i,c in enumerate(outs):
        if not c:
            ne+=1; last=cur; cur=i; d=cur-last
            pm=mean; mean=mean+(d-mean)/ne; sd=sd+(d-mean)*(d-pm); sd=np.sqrt(sd/ne)
            if ne>=nthr:
                num=mean+2*sd
                if mx<num: mx=num
                ts=num/mx
                st = 'drift' if ts<=dt else ('warning' if ts<=wt else None)
        states.append(st)
    return states
def stepd_spec(outs, w, aw, ad):
    states=[]; st=None
    for n in range(1,len(outs)+1):
        if n>=2*w:
            rec=outs[n-w:n]; past=outs[:n-w]
            pr=sum(rec)/w; pp=sum(past)/len(past); po=sum(outs[:n])/n
            k=1/len(past)+1/w
            T=(abs(pp-pr)-0.5*k)/np.sqrt(po*(1-po)*k)
            pv=1-scipy.stats.norm.cdf(T)
            dec=pp>pr
            st='drift' if dec and pv<ad else ('warning' if dec and pv<aw else None)
        states.append(st)
    return states

def drive(det, spec, r, correct_is_one, recs_kind):
    T=r.randint(30,400); pacc=r.choice([.95,.8,.6]); epoch=[]; off=0; bad=None; ndr=0
    firstwarn=None; runstart=None
    for t in range(T):
        if r.random()<0.02: pacc=r.choice([.95,.8,.5,.2])
        c=int(r.random()<pacc); yt=r.randint(0,1); yp= yt if c else 1-yt
        if det.drift_state=='drift': epoch=[]; off=t; firstwarn=None; runstart=None
        epoch.append(c if correct_is_one else 1-c)
        det.update(yt,yp)
        st=spec(epoch)[-1]
        if st!=det.drift_state: return ('STATE',t,st,det.drift_state)
        # recs
        if recs_kind=='first':
            if st=='warning' and firstwarn is None: firstwarn=t
            exp=[firstwarn, None]
            if st=='drift': exp=[firstwarn if firstwarn is not None else t, t]
            got=list(det.retraining_recs)
            # EDDM/DDM only update recs when state evaluated & not None; spec equivalently
        else:
            if st is None and len(epoch)>=1: 
                pass
        if st=='drift': ndr+=1
    return ('ok',ndr)
bad=0; tot=0; drs=0
for seed in range(600):
    r=random.Random(seed)
    nthr=r.randint(1,30); ws=r.choice([1.1,1.5,2,2.5]); ds=ws+r.choice([0,.5,1])
    res=drive(DDM(n_threshold=nthr,warning_scale=ws,drift_scale=ds), lambda e: ddm_spec(e,nthr,ws,ds), r, False,'first'); tot+=1
    if res[0]!='ok': bad+=1; print('DDM',seed,res)
    else: drs+=res[1]
    r=random.Random(seed); nthr=r.randint(1,15); wt=r.choice([.99,.95,.9]); dt=wt-r.choice([0,.05,.1])
    res=drive(EDDM(n_threshold=nthr,warning_thresh=wt,drift_thresh=dt), lambda e: eddm_spec(e,nthr,wt,dt), r, True,'first'); tot+=1
    if res[0]!='ok': bad+=1; print('EDDM',seed,res)
    else: drs+=res[1]
    r=random.Random(seed); w=r.randint(1,20); aw=r.choice([.2,.1,.05]); ad=aw*r.choice([1,.5,.06])
    res=drive(STEPD(window_size=w,alpha_warning=aw,alpha_drift=ad), lambda e: stepd_spec(e,w,aw,ad), r, True,'run'); tot+=1
    if res[0]!='ok': bad+=1; print('STEPD',seed,res)
    else: drs+=res[1]
print("runs",tot,"bad",bad,"drifts",drs)
