#!/bin/bash
# Specificity self-test: behaviour-preserving refactors of menelaus; no check may raise an alarm (every line must say violation=no).
cd /verif
echo "R1 DDM private rename"; /venv/bin/python tools/trymut.py --sub-all menelaus/concept_drift/ddm.py '_error_rate' '_p_hat' C05 C02 C01 C16 | grep -E "^C"
echo "R2 PH private rename"; /venv/bin/python tools/trymut.py --sub-all menelaus/change_detection/page_hinkley.py 'self._sum' 'self._cumulative' C04 C02 C11 | grep -E "^C"
echo "R4 kdq choice positional"; /venv/bin/python tools/trymut.py --sub menelaus/data_drift/kdq_tree.py 'np.random.choice(bin_indices, size=2 * sample_size, p=ref_dist)' 'np.random.choice(bin_indices, 2 * sample_size, True, ref_dist)' C09 C17 | grep -E "^C"
echo "R5 HDM bootstrap by another primitive"; /venv/bin/python tools/trymut.py --sub menelaus/data_drift/histogram_density_method.py 'subset = reference.sample(n=size, replace=True)' 'subset = reference.iloc[np.random.randint(0, len(reference), size)]' C07 C02 C18 | grep -E "^C"
echo "R10 validate_y reshape"; /venv/bin/python tools/trymut.py --sub menelaus/detector.py '        ary = np.array(y).ravel()
        if ary.shape != (1,):' '        ary = np.asarray(y).reshape(-1)
        if ary.shape != (1,):' C05 C14 C16 | grep -E "^C"
echo "R13 ADWIN python pow"; /venv/bin/python tools/trymut.py --sub-all menelaus/change_detection/adwin.py 'n_increment = power(2, list_pos)' 'n_increment = 2 ** list_pos' C03 | grep -E "^C"
echo "R7 NNSP lists the de-duplicated union in reverse order"; /venv/bin/python tools/trymut.py --sub menelaus/partitioners/NNSpacePartitioner.py '        self.D = D
' '        D = D[::-1]
        inverted_indices = len(D) - 1 - inverted_indices
        self.D = D
' C10 C18 | grep -E "^C"
echo "R14 LFR binomial positional"; /venv/bin/python tools/trymut.py --sub menelaus/concept_drift/lfr.py 'bools = np.random.binomial(n=1, p=est_rate, size=denom)' 'bools = np.random.binomial(1, est_rate, denom)' C06 | grep -E "^C"
echo "R15 EDDM drift tie strict as in its docstring"; /venv/bin/python tools/trymut.py --sub menelaus/concept_drift/eddm.py 'if self._test_statistic <= self.drift_thresh:' 'if self._test_statistic < self.drift_thresh:' C05 | grep -E "^C"
