#!/bin/bash
# usage: tools/w3.sh C05 [extra checks...]   -- run the property's check (and extras) against the wave-3 mutants of that property
p=$1; shift
for m in m1 m2 m3; do
  f=/tmp/mut3/$p/out/$m.diff
  [ -f $f ] || { echo "$p $m: no diff"; continue; }
  echo "== $p $m"; /venv/bin/python /verif/tools/trymut.py --diff $f $p "$@" 2>&1 | grep -E "^C[0-9]+:|violation:|could not" | cut -c1-260
done
