#!/venv/bin/python
"""Confirm a sub-agent's mutant myself and file it under /verif/seeded/<prop>-<name>/.

    tools/confirm_seeded.py C05 m1 [m2 ...]

In the agent's scratch worktree /tmp/mut/<prop> (never /repo): clean tree -> demo must exit 0;
apply the diff -> the repository's baseline test command must pass exactly as on the clean tree and
the demo must exit non-zero; restore the tree.  Only then are patch.diff / demo.py / meta.json kept.
"""
import json
import os
import re
import shutil
import subprocess
import sys

PY = "/venv/bin/python"
SUITE = [PY, "-m", "pytest", "-q", "-p", "no:cacheprovider", "--timeout=900", "--continue-on-collection-errors", "-x"]


def sh(cmd, cwd, timeout=1800):
    return subprocess.run(cmd, cwd=cwd, capture_output=True, text=True, timeout=timeout)


def suite(wt):
    cp = sh(SUITE, wt)
    tail = cp.stdout.strip().splitlines()[-1] if cp.stdout.strip() else ""
    m = re.search(r"(\d+) passed", tail)
    failed = re.search(r"(\d+) failed", tail)
    return (int(m.group(1)) if m else 0, int(failed.group(1)) if failed else 0, tail)


def main():
    args = sys.argv[1:]
    root, prefix = "/tmp/mut", ""
    while args and args[0].startswith("--"):
        if args[0] == "--root":
            root = args[1]
        elif args[0] == "--prefix":
            prefix = args[1]
        args = args[2:]
    prop, names = args[0], args[1:]
    wt = f"{root}/{prop}"
    out = os.path.join(wt, "out")
    sh(["git", "checkout", "--", "."], wt)
    for name in names:
        diff = os.path.join(out, f"{name}.diff")
        demo = os.path.join(out, f"{name}_demo.py")
        meta = os.path.join(out, f"{name}_meta.json")
        res = {"property": prop, "mutant": name}
        clean_demo = sh([PY, demo], wt, 900)
        res["demo_clean_exit"] = clean_demo.returncode
        ap = sh(["git", "apply", diff], wt)
        if ap.returncode != 0:
            print(prop, name, "diff does not apply:", ap.stderr[:300])
            continue
        try:
            p, f, tail = suite(wt)
            res["suite_with_mutant"] = tail
            mut_demo = sh([PY, demo], wt, 900)
            res["demo_mutant_exit"] = mut_demo.returncode
            res["demo_mutant_output_tail"] = (mut_demo.stdout + mut_demo.stderr)[-600:]
        finally:
            sh(["git", "checkout", "--", "."], wt)
        ok = res["demo_clean_exit"] == 0 and res["demo_mutant_exit"] != 0 and f == 0 and p >= 164
        res["confirmed"] = ok
        print(json.dumps(res)[:900])
        if not ok:
            continue
        dst = os.path.join(os.path.dirname(os.path.dirname(os.path.abspath(__file__))), "seeded", f"{prop}-{prefix}{name}")
        os.makedirs(dst, exist_ok=True)
        shutil.copy(diff, os.path.join(dst, "patch.diff"))
        text = open(demo).read().replace(f'menelaus.__file__.startswith("{wt}")',
                                         'menelaus.__file__.startswith(os.path.dirname(os.path.dirname(os.path.abspath(__file__))))')
        open(os.path.join(dst, "demo.py"), "w").write(text)
        try:
            m = json.load(open(meta))
        except Exception:  # noqa: BLE001
            m = {}
        m.update({
            "property": prop if prop.startswith("C") else m.get("property", prop),
            "origin": "independent sub-agent given only the property text and a scratch worktree",
            "confirmed_by_me": {
                "worktree": wt, "suite_cmd": " ".join(SUITE), "suite_with_mutant": res["suite_with_mutant"],
                "demo_exit_clean_tree": res["demo_clean_exit"], "demo_exit_mutated_tree": res["demo_mutant_exit"],
                "note": "demo.py expects to live in <worktree>/out/ of a tree with patch.diff applied",
            },
        })
        json.dump(m, open(os.path.join(dst, "meta.json"), "w"), indent=1)


if __name__ == "__main__":
    main()
