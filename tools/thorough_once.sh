#!/bin/bash
# every registered thorough command once on the unchanged tree (scratch evidence / replay directories): must exit 0
out=${1:-/tmp/verif_thorough}; shift
mkdir -p $out
for p in ${@:-C01 C02 C03 C04 C05 C06 C07 C08 C09 C10 C11 C12 C13 C14 C15 C16 C17 C18 C19}; do
  s=$(date +%s)
  VERIF_EVIDENCE_DIR=$out/evidence VERIF_REPLAY_DIR=$out/replays timeout 7200 /venv/bin/python $(dirname $0)/../check.py $p --tier thorough > $out/$p.log 2>&1
  echo "$p exit=$? wall=$(( $(date +%s) - s ))s :: $(grep -E 'tier=thorough' $out/$p.log | cut -c1-160)"
  grep -E "VIOLATION|HARNESS|violation:" $out/$p.log | cut -c1-300
done
