import json, os, subprocess
props = {json.loads(l)["id"]: json.loads(l) for l in open("/verif/properties.jsonl")}
def ptext(ids):
    return "\n\n".join(f"[{i}] {props[i]['title']}\n{props[i]['statement']}" for i in ids)

R = {
 "V01": (["C03", "C01", "C02", "C17"], "menelaus/change_detection/adwin.py, menelaus/concept_drift/adwin_accuracy.py"),
 "V02": (["C06", "C01", "C02", "C16"], "menelaus/concept_drift/lfr.py"),
 "V03": (["C07", "C02", "C18", "C14"], "menelaus/data_drift/hdddm.py, cdbd.py, histogram_density_method.py"),
 "V04": (["C10", "C18", "C02", "C15"], "menelaus/data_drift/nndvi.py, menelaus/partitioners/NNSpacePartitioner.py"),
 "V05": (["C19", "C15", "C14"], "menelaus/concept_drift/md3.py"),
 "V06": (["C14", "C15", "C01"], "menelaus/detector.py (base classes and input validation) and how the concrete detectors use it"),
}
BREAK = """You are helping to stress-test a verification harness for the Python library mitre/menelaus (streaming and batch drift detectors). You get your own scratch git worktree of the repository at {wt}. Work ONLY inside {wt}. Never modify /repo, never read or touch /verif, never create files elsewhere (except temporary files under {wt}).

Environment: no network. Python is /venv/bin/python (numpy 2.x, pandas 3.x, scikit-learn, scipy installed). IMPORTANT: /venv has menelaus installed in editable mode pointing at another directory, so EVERY script you write must begin with
    import sys; sys.path.insert(0, "{wt}")
    import menelaus; assert menelaus.__file__.startswith("{wt}"), menelaus.__file__
The test suite:  cd {wt} && /venv/bin/python -m pytest -q -p no:cacheprovider --timeout=900 -x     (165 tests pass on the unchanged tree, about 30 s)

The library promises the following semantic properties (each must hold for EVERY input / history / configuration, not only the ones a unit test samples):

{props}

YOUR TASK: write TWO independent changes to the library source under {wt}/menelaus - focus on: {files} - each of which BREAKS one of the properties above for some legitimate use of the public API, while
 (a) the package still imports and the complete existing test suite still passes, unedited;
 (b) the change looks like something a maintainer could plausibly commit - an optimisation, a refactor, a 'hardening', a clean-up, a small feature tweak - not sabotage with magic constants or `if x == 12345`.

The changes must be HARD TO DETECT. Assume the maintainers already run a strong automated differential tester. It executes many thousands of random histories and compares every detector step by step with an independent re-implementation of the documented rule, with a freshly constructed twin after each drift, with the same members run alone (for ensembles), with runs on private copies of all inputs (the caller's arrays / frames are overwritten after every call), and with runs in which a malformed call is inserted at every position. Its histories are mostly tens to a few hundred steps with 1-4 features, gaussian / Bernoulli / heavy-tailed data with level and variance shifts so that several drifts occur, explicit reset() / set_reference() at random moments and random legal constructor parameters including extremes - but it ALSO already does all of the following, so none of these will hide a change:
  - a few histories per detector with single epochs of 2000-5000 updates (and burn-in / window parameters above 1000);
  - copy.deepcopy / pickle round trips of a detector at random moments (also exactly while it reports drift), continuing on the copy;
  - several other instances of the same classes (and ensembles, partitioners) alive and being updated in the same process, interleaved with the instance under test;
  - data moved to a huge common offset (1e9 + noise), to a tiny scale (1e-9), or rounded to a coarse lattice (many ties, values exactly on split points / bin edges); integer-typed, unsigned, float32 and mixed-dtype inputs; whole-number observations arriving as ints among floats;
  - inputs as scalars, lists, C / F / strided / read-only ndarrays and views, Series, DataFrames (single- and mixed-dtype blocks, duplicated column labels, integer column labels, frames built over caller-owned arrays with copy=False);
  - constructor parameters given as numpy scalars, floats that equal ints, numpy bools;
  - label pairs of every kind (ints, strings, bools, floats incl. close-valued ones, numbers against their own string form, numpy unsigned types);
  - for LinearFourRates: parallelize=True under a scheduler that pre-empts threads between any two statements of lfr.py, including between the load and the store of a read-modify-write;
  - for MD3: illegal protocol moves at every state, permuted / renamed / missing / extra columns, in-place refits of the classifier, a real sklearn SVC with the default margin function;
  - for ensembles: all four elections, selectors by position and by name, malformed calls, member swaps, ensembles built with and without selectors.
A change that such a tester would notice within a few thousand random runs is TOO EASY - do not submit it. Each change must need something SPECIFIC that is NOT in the list above to manifest, while still being something a real user could plausibly do or encounter through the public API. Think about what is left: interactions between two features of the list that the tester exercises only separately; very particular parameter combinations or boundary values of the documented rules; particular orders of legal operations (three or more steps); states reached only after specific alternations of warning / drift / quiet periods; properties of the data the tester does not generate (periodic, sorted, exactly repeating blocks, one duplicated row among distinct ones, two features that are exact copies or exact negatives of each other, a feature that becomes constant mid-stream, batches of very different sizes, a single-row-short batch, very many features, inf where legal); public methods or attributes that are rarely called (plot helpers, to_dataframe, accessor methods) and must still tell the truth; Python-level behaviours (calling update with keyword vs positional arguments, passing y_true without y_pred, None vs omitted arguments, ...). NOT acceptable as triggers (the properties speak of detectors configured through their constructor, and of the shipped classes): assigning a parameter attribute on a detector after construction (det.threshold = ...), and user-written subclasses of shipped detectors. Use a DIFFERENT kind of trigger for each of your two changes.

For each change i = 1, 2 deliver, in the directory {wt}/out/ (create it):
  m<i>.diff       `git diff` of that change ALONE against the unchanged tree (do `git checkout -- .` between changes so that each diff applies to a clean tree with `git apply`);
  m<i>_demo.py    a small self-contained program (public API only, deterministic: seed any randomness) that exits 0 on the unchanged tree and exits 1 - printing what went wrong - on the tree with m<i>.diff applied, and that demonstrates the violation of the property itself (compare with what the property text demands, computed independently in the demo - not merely 'the output differs from the old code'). It must begin with the sys.path lines given above. It should run in under two minutes;
  m<i>_meta.json  {{"property": "Cxx (the clause that is broken)", "also_breaks": ["Cyy (...)", ...], "summary": "what was changed and why it looks innocent", "files": [...], "needs_to_manifest": "exactly what input / history / configuration / schedule is needed", "suite_result": "<last line of pytest output with the change applied>"}}
Verify all of it yourself: with each diff applied alone the full suite passes and the demo exits 1; on the clean tree the demo exits 0. At the end leave the worktree clean (`git checkout -- .`; only out/ untracked) and do not commit anything.

You have a hard limit of about 15 minutes of wall time: prefer two solid deliveries over exploration, and keep every message you write short. Finish with a short report: for each change one or two sentences (what, which property, what it needs to manifest). If you could only produce fewer than two changes that meet the bar, say so rather than padding with easy ones.
"""
for name, (ids, files) in R.items():
    wt = f"/tmp/mut10/{name}"
    if not os.path.isdir(wt):
        subprocess.run(["git", "-C", "/repo", "worktree", "add", "--detach", wt, "HEAD"], check=True, capture_output=True)
    open(f"/tmp/mut10/BRIEF_{name}.md", "w").write(BREAK.format(wt=wt, props=ptext(ids), files=files))

print("ok")
