#!/venv/bin/python
"""Merge the RESULTS.json files of sharded sensitivity runs (each shard ran tools/selftest_sensitivity.py with name filters in
its own snapshot): for every mutant the entry of the shard whose filters match its name wins.
    tools/merge_results.py OUT.json  SHARD.json:filter1,filter2 ...  [BASE.json:*]"""
import json
import sys

out = {}
for spec in sys.argv[2:]:
    path, _, flt = spec.partition(":")
    data = json.load(open(path))
    flts = flt.split(",")
    for name, r in data.items():
        if flt == "*" or any(f in name for f in flts):
            out[name] = r
json.dump(out, open(sys.argv[1], "w"), indent=1, sort_keys=True)
applied = {n: r for n, r in out.items() if r.get("applied")}
missed = sorted(n for n, r in applied.items() if not r.get("caught_by") and not r.get("not_decided"))
nd = sorted(n for n, r in applied.items() if not r.get("caught_by") and r.get("not_decided"))
print(f"{len(out)} changes, {len(applied)} apply to the current tree, {sum(1 for r in applied.values() if r.get('caught_by'))} caught, "
      f"{len(nd)} not decided {nd}, missed {missed}, not applicable {sorted(n for n, r in out.items() if not r.get('applied'))}")
