import json, os, subprocess
props = {json.loads(l)["id"]: json.loads(l) for l in open("/verif/properties.jsonl")}
def ptext(ids):
    return "\n\n".join(f"[{i}] {props[i]['title']}\n{props[i]['statement']}" for i in ids)

R = {
 "R01": (["C03", "C01", "C02", "C17", "C16"], "menelaus/change_detection/adwin.py, menelaus/concept_drift/adwin_accuracy.py"),
 "R02": (["C04", "C01", "C02", "C17"], "menelaus/change_detection/cusum.py, menelaus/change_detection/page_hinkley.py"),
 "R03": (["C05", "C01", "C02", "C16", "C17"], "menelaus/concept_drift/ddm.py, eddm.py, stepd.py"),
 "R04": (["C06", "C01", "C02", "C16", "C17"], "menelaus/concept_drift/lfr.py (at least one of the three changes must need a specific thread interleaving under parallelize=True to manifest)"),
 "R05": (["C07", "C01", "C02", "C17", "C18"], "menelaus/data_drift/histogram_density_method.py, hdddm.py, cdbd.py"),
 "R06": (["C08", "C09", "C02", "C17", "C18"], "menelaus/partitioners/KDQTreePartitioner.py, menelaus/data_drift/kdq_tree.py"),
 "R07": (["C10", "C02", "C17", "C18"], "menelaus/partitioners/NNSpacePartitioner.py, menelaus/data_drift/nndvi.py"),
 "R08": (["C11", "C01", "C02"], "menelaus/data_drift/pca_cd.py (and the PageHinkley it uses)"),
 "R09": (["C12", "C13"], "menelaus/ensemble/ensemble.py, menelaus/ensemble/election.py"),
 "R10": (["C14", "C15", "C16"], "menelaus/detector.py (base classes: validation, counters), menelaus/injection/*.py (only the 'inputs are left unchanged / new object returned' clause of C15)"),
 "R11": (["C19", "C01", "C15"], "menelaus/concept_drift/md3.py"),
}
BREAK = """You are helping to stress-test a verification harness for the Python library mitre/menelaus (streaming and batch drift detectors). You get your own scratch git worktree of the repository at {wt}. Work ONLY inside {wt}. Never modify /repo, never read or touch /verif, never create files elsewhere (except temporary files under {wt}).

Environment: no network. Python is /venv/bin/python (numpy 2.x, pandas 3.x, scikit-learn, scipy installed). IMPORTANT: /venv has menelaus installed in editable mode pointing at another directory, so EVERY script you write must begin with
    import sys; sys.path.insert(0, "{wt}")
    import menelaus; assert menelaus.__file__.startswith("{wt}"), menelaus.__file__
The test suite:  cd {wt} && /venv/bin/python -m pytest -q -p no:cacheprovider --timeout=900 -x     (165 tests pass on the unchanged tree, about 30 s)

The library promises the following semantic properties (each must hold for EVERY input / history / configuration, not only the ones a unit test samples):

{props}

YOUR TASK: write THREE independent changes to the library source under {wt}/menelaus - focus on: {files} - each of which BREAKS one of the properties above for some legitimate use of the public API, while
 (a) the package still imports and the complete existing test suite still passes, unedited;
 (b) the change looks like something a maintainer could plausibly commit - an optimisation, a refactor, a 'hardening', a clean-up, a small feature tweak - not sabotage with magic constants or `if x == 12345`.

The changes must be HARD TO DETECT. Assume the maintainers already run an automated differential tester: many thousands of random short histories (tens to a few hundred steps; 1-4 features; gaussian or Bernoulli data with level / variance shifts so that several drifts occur per history; random legal constructor parameters including extreme ones; explicit reset() / set_reference() at random moments; inputs passed as scalars, lists, ndarrays, Series, DataFrames), comparing every detector step by step with an independent re-implementation of the documented rule, with a freshly constructed twin after each drift, and (for ensembles) with the same members run alone. A change that such a tester would notice within a few thousand random runs is TOO EASY - do not submit it. Each change must need something SPECIFIC to manifest. Kinds of trigger to consider (use a DIFFERENT kind for each of your three changes):
  * only after a long history: thousands of updates inside one epoch, many epochs (>= 4), a counter crossing a power of two or a type limit, accumulated floating-point drift;
  * only for data with a particular structure: heavy ties / duplicated rows, constant or near-constant columns, integer-valued data, huge offsets (1e9 + small noise), tiny scales (1e-9), all-negative values, features of wildly different magnitude, strictly monotone streams, alternating patterns;
  * only for a particular legal combination of two or more parameters, or a parameter given as an unusual-but-legal type (numpy scalar, bool, float that equals an int, ...);
  * only for a particular container / dtype: float32, small ints, bool, object dtype, pandas nullable / categorical / string columns, non-default or duplicated DataFrame index, non-string or duplicated column labels, read-only arrays, non-contiguous views, 0-d arrays;
  * only when TWO detector instances live in the same process (state leaking through class attributes, mutable default arguments, module-level caches), or when a detector is copy.deepcopy'd / pickled mid-stream and the copy is continued;
  * only at a specific point of a multi-step operation sequence (e.g. set_reference right after a drift, then reset, then update; a drift on the very first eligible sample of an epoch; a rejected call between two specific accepted ones);
  * two cooperating edits at different sites, each of which looks fine (and is behaviour-preserving) alone;
  * (threads, where the code has them) only under a specific interleaving.
Prefer triggers that real users could plausibly hit.

For each change i = 1, 2, 3 deliver, in the directory {wt}/out/ (create it):
  m<i>.diff       `git diff` of that change ALONE against the unchanged tree (do `git checkout -- .` between changes so that each diff applies to a clean tree with `git apply`);
  m<i>_demo.py    a small self-contained program (public API only, deterministic: seed any randomness) that exits 0 on the unchanged tree and exits 1 - printing what went wrong - on the tree with m<i>.diff applied, and that demonstrates the violation of the property itself (compare with what the property text demands, computed independently in the demo - not merely 'the output differs from the old code'). It must begin with the sys.path lines given above. It should run in under two minutes;
  m<i>_meta.json  {{"property": "Cxx (the clause that is broken)", "also_breaks": ["Cyy (...)", ...], "summary": "what was changed and why it looks innocent", "files": [...], "needs_to_manifest": "exactly what input / history / configuration / schedule is needed", "suite_result": "<last line of pytest output with the change applied>"}}
Verify all of it yourself: with each diff applied alone the full suite passes and the demo exits 1; on the clean tree the demo exits 0. At the end leave the worktree clean (`git checkout -- .`; only out/ untracked) and do not commit anything.

Finish with a short report: for each change one or two sentences (what, which property, what it needs to manifest). If you could only produce fewer than three changes that meet the bar, say so rather than padding with easy ones.
"""
for name, (ids, files) in R.items():
    wt = f"/tmp/mut7/{name}"
    if not os.path.isdir(wt):
        subprocess.run(["git", "-C", "/repo", "worktree", "add", "--detach", wt, "HEAD"], check=True, capture_output=True)
    open(f"/tmp/mut7/BRIEF_{name}.md", "w").write(BREAK.format(wt=wt, props=ptext(ids), files=files))

S = {
 "S01": (["C01", "C02", "C03", "C04", "C16", "C17"], "menelaus/change_detection/adwin.py, cusum.py, page_hinkley.py, menelaus/concept_drift/adwin_accuracy.py"),
 "S02": (["C01", "C02", "C05", "C06", "C16", "C17"], "menelaus/concept_drift/ddm.py, eddm.py, stepd.py, lfr.py"),
 "S03": (["C01", "C02", "C07", "C17", "C18", "C14", "C15"], "menelaus/data_drift/histogram_density_method.py, hdddm.py, cdbd.py"),
 "S04": (["C01", "C02", "C08", "C09", "C10", "C17", "C18"], "menelaus/partitioners/*.py, menelaus/data_drift/kdq_tree.py, nndvi.py"),
 "S05": (["C01", "C02", "C11", "C12", "C13"], "menelaus/data_drift/pca_cd.py, menelaus/ensemble/*.py"),
 "S06": (["C01", "C14", "C15", "C16", "C19"], "menelaus/detector.py, menelaus/concept_drift/md3.py, menelaus/injection/*.py"),
}
KEEP = """You are helping to test a verification harness for the Python library mitre/menelaus (streaming and batch drift detectors) for FALSE ALARMS. You get your own scratch git worktree of the repository at {wt}. Work ONLY inside {wt}. Never modify /repo, never read or touch /verif, never create files elsewhere.

Environment: no network. Python is /venv/bin/python (numpy 2.x, pandas 3.x, scikit-learn, scipy installed). IMPORTANT: /venv has menelaus installed in editable mode pointing at another directory, so EVERY script you write must begin with
    import sys; sys.path.insert(0, "{wt}")
    import menelaus; assert menelaus.__file__.startswith("{wt}"), menelaus.__file__
The test suite:  cd {wt} && /venv/bin/python -m pytest -q -p no:cacheprovider --timeout=900 -x     (165 tests pass on the unchanged tree, about 30 s)

The library promises the following semantic properties (each must hold for EVERY input / history / configuration):

{props}

YOUR TASK: write FOUR independent changes to the library source under {wt}/menelaus - focus on: {files} - each of which is a REAL, NON-TRIVIAL change of the implementation that nevertheless PRESERVES every property above for every legitimate use of the public API, and with which the complete existing test suite still passes, unedited. These are the changes a sound verification harness must NOT flag. Make them as invasive as you can while staying confident the properties still hold - the kind of thing maintainers really do:
  * replace an incremental computation by a closed form / a recomputation from stored data, or the reverse; re-associate sums; use another numerically equivalent formula (results may differ in the last few ulps - that is fine and intended);
  * vectorise a loop or de-vectorise a numpy expression; swap a pandas operation for the numpy equivalent or vice versa; change internal containers (list <-> deque <-> ndarray, DataFrame <-> ndarray);
  * rename, remove, add or restructure PRIVATE attributes and helper methods (names starting with an underscore, and internals no property mentions); split or merge methods; reorder internal operations where no documented behaviour depends on the order;
  * add caching / memoisation that is invalidated correctly; allocate lazily; drop dead code;
  * draw the documented random samples through a different numpy primitive (or in a different order / batch size) while keeping the documented distribution - decisions on a given seed may then change, the statistical property does not;
  * change exception MESSAGES (not the exception types the properties name), warnings, docstrings, logging;
  * change public-but-undocumented details no property talks about only if you are sure no property depends on them.
Do NOT change any behaviour a property pins down (states, counters, statistics, decisions, recommendations, which inputs are rejected, no mutation of caller data, ...). Use a different kind of change for each of the four; at least one must alter floating-point evaluation order of a statistic that feeds a drift decision, and at least one must rename / restructure private state.

For each change i = 1..4 deliver, in the directory {wt}/out/ (create it):
  m<i>.diff       `git diff` of that change ALONE against the unchanged tree (do `git checkout -- .` between changes so that each diff applies to a clean tree with `git apply`);
  m<i>_meta.json  {{"summary": "what was changed", "files": [...], "kind": "which of the kinds above", "why_properties_still_hold": "your argument, clause by clause where it matters", "suite_result": "<last line of pytest output with the change applied>"}}
Also convince yourself with a quick script (not delivered) that on a few random multi-drift histories the changed code reports the same states / decisions as the unchanged code (up to ulp-level differences in statistics; for a changed random primitive compare statistically). Verify that with each diff applied alone the full suite passes. At the end leave the worktree clean (`git checkout -- .`; only out/ untracked) and do not commit anything.

Finish with a short report: one or two sentences per change. If you are not fully sure a change preserves a property, say which clause you are unsure about.
"""
for name, (ids, files) in S.items():
    wt = f"/tmp/spec7/{name}"
    if not os.path.isdir(wt):
        subprocess.run(["git", "-C", "/repo", "worktree", "add", "--detach", wt, "HEAD"], check=True, capture_output=True)
    open(f"/tmp/spec7/BRIEF_{name}.md", "w").write(KEEP.format(wt=wt, props=ptext(ids), files=files))
print("ok")
