#!/venv/bin/python
"""Run the checks named in a wave-4 mutant's meta.json (property + also_breaks) against that mutant."""
import json, os, re, subprocess, sys
root = "/tmp/mut4"
args = sys.argv[1:]
if args and args[0] == "--root":
    root, args = args[1], args[2:]
for fid in args:
    for i in (1, 2, 3):
        d = f"{root}/{fid}/out"
        diff, meta = f"{d}/m{i}.diff", f"{d}/m{i}_meta.json"
        if not os.path.exists(diff):
            print(fid, i, "no diff"); continue
        try:
            m = json.load(open(meta))
        except Exception:
            m = {}
        props = re.findall(r"C\d\d", json.dumps([m.get("property"), m.get("also_breaks")]))
        props = sorted(set(p for p in props if p != "C20")) or ["C01"]
        cp = subprocess.run(["/venv/bin/python", "/verif/tools/trymut.py", "--diff", diff] + props, capture_output=True, text=True)
        lines = [l for l in cp.stdout.splitlines() if re.match(r"^C\d\d:", l)]
        caught = [l.split(":")[0] for l in lines if "violation=yes" in l]
        print(f"{fid} m{i} main={m.get('property')} checks={props} caught_by={caught or 'NOTHING'} :: {str(m.get('summary'))[:110]}")
        sys.stdout.flush()
