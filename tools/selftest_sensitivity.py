#!/venv/bin/python
"""Sensitivity self-test: run checks against every filed mutant (never touching /repo).

Mutants: /verif/seeded/<id>/patch.diff (from independent sub-agents), the reversed fix diffs under
/verif/fixes (each re-introduces a repaired defect) and the hand-written ones in HAND below.
For every mutant the check of its own property (and any extra ones listed) runs against a scratch copy
with the mutant applied; the result table is written to /verif/seeded/RESULTS.json and printed.

    tools/selftest_sensitivity.py [--all-checks] [--tier quick] [name-filter ...]
"""
import argparse
import glob
import json
import os
import shutil
import subprocess
import sys
import time

HERE = os.path.dirname(os.path.dirname(os.path.abspath(__file__)))
ALL = ["C%02d" % i for i in range(1, 20)]

REVERSED_FIXES = {
    "D01_cusum_stale_index": ["C04", "C02"], "D02_hdm_lambda": ["C02", "C07"], "D03_adwinacc_typeerror": ["C03", "C01", "C16"],
    "D04_adwinacc_ctor": ["C03"], "D05_nnsp_split": ["C10", "C18"], "D06_kdq_persistence": ["C09"], "D07_pcacd_noscale": ["C11"],
    "D08_pcacd_bounds": ["C11"], "D10b_univariate_guard": ["C14"], "D11_injector_dict": ["C15"], "D12_adwin_empty_rows": ["C03"],
    "D13_cdbd_list_input": ["C14"], "D14_hdm_proxy_names": ["C14"], "D15_hdm_reference_labels": ["C14"],
    # (D16 cannot be applied in reverse any more: D18 later edited the very line it had introduced; H19 below is its reversal on today's tree)
    "D17_nnsp_offset": ["C10"], "D18_md3_label_view": ["C15"],
}
# seeded changes that also break a neighbouring property whose check sees them far more reliably
EXTRA_CHECKS = {"C17-m1": ["C09"], "C17-w3m2": ["C04"]}
# per-file rounds: checks beyond the ones the author listed (the change is in a helper of another property's detector)
EXTRA_BY_NAME = {"T08-w8m3": ["C04"], "V03-w10m1": ["C16"]}   # (V03-w10m1: HDDDM validating its unused y - the refusal itself is what C16 sees)
# changes that need more simulated time than the quick tier spends (stated in DESIGN.md 9.6): checked with the thorough tier
THOROUGH_ONLY = {"P06-w5m1"}
# (file, old, new, replace-all?, checks)
HAND = {
    "H01_df_view": ("menelaus/detector.py", "ary = X.values.copy()", "ary = X.values", True, ["C15"]),
    "H02_ddm_threshold_gate": ("menelaus/concept_drift/ddm.py", "if self.samples_since_reset < self.n_threshold:", "if self.samples_since_reset <= self.n_threshold:", False, ["C05"]),
    "H03_confirmed_wait": ("menelaus/ensemble/election.py", "if count > self.wait_time:", "if count >= self.wait_time:", False, ["C13", "C12"]),
    "H04_kdq_quantile": ("menelaus/data_drift/kdq_tree.py", 'np.quantile(critical_distances, 1 - self.alpha, method="nearest")',
                         'np.quantile(critical_distances, self.alpha, method="nearest")', False, ["C09", "C17"]),
    "H05_lfr_shared_scratch": ("menelaus/concept_drift/lfr.py", "new_r_stat", "self._scratch_r", True, ["C06"]),
    "H06_kdq_fill_boundary": ("menelaus/partitioners/KDQTreePartitioner.py", "        lower_data = data[data[:, axis] <= midpoint_at_axis]\n        total_points = upper_data.shape[0] + lower_data.shape[0]\n        # update by ID",
                              "        lower_data = data[data[:, axis] < midpoint_at_axis]\n        total_points = upper_data.shape[0] + lower_data.shape[0]\n        # update by ID", False, ["C08"]),
    "H07_nndvi_alpha": ("menelaus/data_drift/nndvi.py", "drift_threshold = norm.ppf(1 - alpha, mu, std)", "drift_threshold = norm.ppf(alpha, mu, std)", False, ["C10", "C17"]),
    "H08_hdm_bins": ("menelaus/data_drift/histogram_density_method.py", "self._bins = int(np.floor(np.sqrt(self.reference_n)))\n        self.epsilon = []",
                     "self._bins = int(np.ceil(np.sqrt(self.reference_n)))\n        self.epsilon = []", False, ["C07"]),
    "H09_md3_refusal": ("menelaus/concept_drift/md3.py", "        if len(labeled_columns) != len(reference_columns) or set(\n            labeled_columns\n        ) != set(reference_columns):",
                        "        if len(labeled_columns) != len(reference_columns):", False, ["C19"]),
    "H10_ensemble_selector": ("menelaus/ensemble/ensemble.py", "            self.detectors[det_key].set_reference(\n                X=X_selected, y_true=y_true, y_pred=y_pred\n            )",
                              "            self.detectors[det_key].set_reference(\n                X=X, y_true=y_true, y_pred=y_pred\n            )", False, ["C12"]),
    "H11_pcacd_step": ("menelaus/data_drift/pca_cd.py", "if (((self.total_samples - 1) % self.step) == 0) and (", "if ((self.total_samples % self.step) == 0) and (", False, ["C11"]),
    "H12_stepd_recent": ("menelaus/concept_drift/stepd.py", "if self.samples_since_reset >= 2 * self.window_size:", "if self.samples_since_reset > 2 * self.window_size:", False, ["C05", "C01"]),
    "H13_ph_reset_min": ("menelaus/change_detection/page_hinkley.py", "        super().reset()\n        self._max = 0\n        self._min = 0\n", "        super().reset()\n        self._max = 0\n", False, ["C04", "C02"]),
    "H14_adwin_recs": ("menelaus/change_detection/adwin.py", "self.total_samples - self._window_size,\n                                    self.total_samples - 1,",
                       "self.total_samples - self._window_size - 1,\n                                    self.total_samples - 1,", False, ["C03"]),
    "H15_batch_rows": ("menelaus/detector.py", "        if ary.shape[0] <= 1:\n            raise ValueError(\n                \"Input for batch detectors", "        if ary.shape[0] < 1:\n            raise ValueError(\n                \"Input for batch detectors", False, ["C14"]),
    "H16_label_swap_mutates": ("menelaus/injection/injector.py", "        copy = np.copy(data)\n", "        copy = np.asarray(data)\n", False, ["C15"]),
    "H17_row_order_hdm": ("menelaus/data_drift/histogram_density_method.py", "test_density = self._build_histograms(X, mins, maxes)", "test_density = self._build_histograms(X.iloc[: max(2, len(X) - 1)], mins, maxes)", False, ["C18", "C07"]),
    "H19_md3_label_order_D16_reversed": ("menelaus/concept_drift/md3.py", "labeled_sample = labeled_sample[reference_columns].copy()", "labeled_sample = labeled_sample.copy()", False, ["C19"]),
    "H18_lfr_label_identity": ("menelaus/concept_drift/lfr.py", "        y_p = 1 * y_pred\n        y_t = 1 * y_true", "        y_p = 1 * y_pred\n        y_t = int(str(y_true) == \"1\")", False, ["C16"]),
}


SEED = ["0"]


def run_check(scratch, prop, tier):
    env = dict(os.environ, VERIF_SEED=SEED[0], VERIF_REPO=scratch, VERIF_EVIDENCE_DIR=os.path.join(scratch, "evidence"), VERIF_REPLAY_DIR=os.path.join(scratch, "replays"))
    env.pop("MENELAUS_VERIF_PINNED", None)
    t0 = time.time()
    cp = subprocess.run([sys.executable, os.path.join(HERE, "check.py"), prop, "--tier", tier], capture_output=True, text=True, env=env, cwd=HERE)
    sig = ""
    frac = ""
    for line in cp.stdout.splitlines():
        if line.startswith("violation:"):
            sig = line.split("sig=")[-1].split()[0]
        if "runs violated" in line:
            frac = line.strip().split(" runs violated")[0].lstrip("(")
    return {"exit": cp.returncode, "caught": cp.returncode == 1 and "VIOLATION property=" in cp.stdout, "sig": sig, "violating_runs": frac, "wall_s": round(time.time() - t0, 1),
            "harness": cp.stdout[-300:] if cp.returncode not in (0, 1) else ""}


def main():
    ap = argparse.ArgumentParser()
    ap.add_argument("--all-checks", action="store_true")
    ap.add_argument("--tier", default="quick")
    ap.add_argument("--first-catch", action="store_true", help="stop at the first listed check that catches the change")
    ap.add_argument("--seed", default="0")
    ap.add_argument("filters", nargs="*")
    a = ap.parse_args()
    SEED[0] = a.seed
    mutants = []
    import re
    for d in sorted(glob.glob(os.path.join(HERE, "seeded", "[CFPQRTU][0-9][0-9]-*"))):
        name = os.path.basename(d)
        if name.startswith("C"):
            checks = [name[:3]] + EXTRA_CHECKS.get(name, [])
        else:   # per-file round: the properties the author says it breaks
            try:
                m = json.load(open(os.path.join(d, "meta.json")))
            except Exception:  # noqa: BLE001
                m = {}
            checks = sorted(set(c for c in re.findall(r"C\d\d", json.dumps([m.get("property"), m.get("also_breaks")])) if c != "C20")) or ["C01"]
            checks = EXTRA_BY_NAME.get(name, []) + [c for c in checks if c not in EXTRA_BY_NAME.get(name, [])]
        mutants.append((name, "diff", os.path.join(d, "patch.diff"), False, checks))
    for n, checks in REVERSED_FIXES.items():
        mutants.append(("rev_" + n, "diff", os.path.join(HERE, "fixes", n + ".diff"), True, checks))
    for n, (f, old, new, allocc, checks) in HAND.items():
        mutants.append((n, "sub", (f, old, new, allocc), False, checks))
    if a.filters:
        mutants = [m for m in mutants if any(f in m[0] for f in a.filters)]
    results = {}
    res_path = os.path.join(HERE, "seeded", "RESULTS.json")
    if os.path.exists(res_path) and a.filters:
        results = json.load(open(res_path))
    for name, kind, spec, reverse, checks in mutants:
        scratch = f"/tmp/verif_sens_{os.getpid()}"
        shutil.rmtree(scratch, ignore_errors=True)
        os.makedirs(scratch)
        try:
            shutil.copytree("/repo/menelaus", os.path.join(scratch, "menelaus"))
            if kind == "diff":
                cp = subprocess.run(["patch", "-p1", "--no-backup-if-mismatch"] + (["-R"] if reverse else []) + ["-i", spec], cwd=scratch, capture_output=True, text=True)
                if cp.returncode != 0:
                    results[name] = {"applied": False, "note": cp.stdout[-200:]}
                    print(f"{name}: DOES NOT APPLY to the current tree")
                    continue
            else:
                f, old, new, allocc = spec
                p = os.path.join(scratch, f)
                s = open(p).read()
                if s.count(old) < 1 or (not allocc and s.count(old) != 1):
                    results[name] = {"applied": False, "note": f"pattern occurs {s.count(old)} times"}
                    print(f"{name}: pattern occurs {s.count(old)} times")
                    continue
                open(p, "w").write(s.replace(old, new))
            r = {"applied": True, "checks": {}}
            for prop in (ALL if a.all_checks else checks):
                r["checks"][prop] = run_check(scratch, prop, "thorough" if name in THOROUGH_ONLY else a.tier)
                if a.first_catch and r["checks"][prop]["caught"]:
                    break       # (the remaining checks its author listed are not needed for the verdict "caught")
            if name in THOROUGH_ONLY:
                r["tier"] = "thorough"
            r["caught_by"] = [p for p, v in r["checks"].items() if v["caught"]]
            r["expected"] = checks
            results[name] = r
            print(f"{name}: caught by {r['caught_by'] or 'NOTHING'}  " + " ".join(f"{p}:{v['exit']}[{v.get('violating_runs', '')}]({v['wall_s']}s)" for p, v in r["checks"].items()))
            sys.stdout.flush()
        finally:
            shutil.rmtree(scratch, ignore_errors=True)
        json.dump(results, open(res_path, "w"), indent=1, sort_keys=True)
    def scope(n):
        try:
            return json.load(open(os.path.join(HERE, "seeded", n, "meta.json"))).get("not_decided")
        except Exception:  # noqa: BLE001
            return None

    outside = [n for n, r in results.items() if r.get("applied") and not r.get("caught_by") and scope(n)]
    for n in outside:
        results[n]["not_decided"] = scope(n)
    json.dump(results, open(res_path, "w"), indent=1, sort_keys=True)
    print(f"not decided (outside the properties' quantifier, reason in seeded/<id>/meta.json): {outside}")
    missed = [n for n, r in results.items() if r.get("applied") and not r.get("caught_by") and not scope(n)]
    print(f"mutants: {len(results)}, caught: {sum(1 for r in results.values() if r.get('caught_by'))}, missed: {missed}, not applicable to current tree: "
          f"{[n for n, r in results.items() if not r.get('applied')]}")
    return 0


if __name__ == "__main__":
    sys.exit(main())
