#!/usr/bin/env python3
"""Regenerates /verif/MANIFEST.json from the table below (only properties whose module exists are
claimed; everything else is listed under not_applicable with its reason)."""
import json
import os

HERE = os.path.dirname(os.path.dirname(os.path.abspath(__file__)))

T = {
    "C01": dict(cat="exploration", tech="deterministic simulation: seeded multi-epoch client histories with reset/set_reference events, per-step lifecycle invariant monitor",
                text="Seeded simulated clients drive all 15 detectors through several epochs (environment drift events, explicit reset / set_reference at random instants, numpy seed schedule owned by the simulator); a monitor checks the lifecycle contract after every accepted call. Sampling over histories/configurations, not proof.",
                note="Detector-specific restart values and warm-up minima are a table taken from the property text and the class docstrings; numpy/pandas/sklearn trusted."),
    "C02": dict(cat="exploration", tech="deterministic simulation: restart equivalence against a fresh twin under an identical numpy seed schedule",
                text="At every drift / set_reference the simulator spawns a fresh twin (real code) with the documented carry-over and compares every later observation in lock-step under the same per-call numpy seed; restart instants are sampled by seeded histories.",
                note="Twin is the real class, so no model can misrepresent the code; statistics compared only where the fresh twin defines them."),
    "C03": dict(cat="exploration", tech="deterministic simulation (degenerate: no schedule): refinement of ADWIN against an explicit-window reference model over seeded histories",
                text="ADWIN is compared after every update with a model that keeps the raw window and a size-only bucket layout (mean, variance, cut decision, retraining_recs); knobs randomised per run; ADWINAccuracy against ADWIN on the indicator stream.",
                note="Model mirrors the documented exponential-histogram sizes only, never sums; near-ties of the epsilon-cut comparison are not judged."),
    "C04": dict(cat="exploration", tech="deterministic simulation (degenerate): refinement of CUSUM / Page-Hinkley against non-incremental recomputation per epoch",
                text="After every update the decision (and all Page-Hinkley statistics) are recomputed from the raw observations of the current epoch by a from-scratch model; multi-alarm histories with randomised knobs.",
                note="User reset() is outside C04's quantifier and not generated; zero-variance burn-in windows are excluded (documented ValueError)."),
    "C05": dict(cat="exploration", tech="deterministic simulation (degenerate): refinement of DDM/EDDM/STEPD against executable specifications over seeded multi-epoch outcome histories",
                text="State and retraining_recs after every sample are compared with from-scratch executable specifications of the current epoch; seeded piecewise-stationary histories and short binary prefixes, knobs randomised per run.",
                note="Specification follows the documented recurrences (DESIGN.md O1); exhaustive 2^n enumeration is a model-checking claim and is not made."),
    "C06": dict(cat="exploration", tech="deterministic simulation: seeded baton thread scheduler over LFR's joblib seam + Monte-Carlo draws recorded at the np.random seam, spec evaluated on recorded draws",
                text="LinearFourRates runs sequentially and with parallelize=True under a seeded one-thread-at-a-time scheduler (pre-emption at line granularity inside lfr.py); rates, statistics, bounds and decisions are recomputed from the confusion matrix and from the Monte-Carlo draws the code actually made; bounds validated statistically.",
                note="joblib's pool is replaced by a stub (one real thread per task, baton passing); races inside numpy C code are out of reach."),
    "C07": dict(cat="exploration", tech="deterministic simulation: refinement of HDDDM/CDBD against a non-incremental epoch-relative model; bootstrap recorded at the DataFrame.sample seam",
                text="Distances, epsilons, thresholds, decisions, reference growth/replacement and feature_info are recomputed per step from the recorded batch history; drift batches and set_reference at seeded instants.",
                note="The bootstrapped first epsilon is an input of the model (validated separately from recorded subsets)."),
    "C08": dict(cat="exploration", tech="deterministic simulation (degenerate, no fault dimension exists): seeded build/fill/reset operation histories against a brute-force point-to-cell model",
                text="Operation histories over the partitioner are checked against a model that walks the public tree and assigns every point by descent; conservation and structural invariants after every operation.",
                note="Nothing in this component is nondeterministic, timed or shared; stated plainly in DESIGN.md."),
    "C09": dict(cat="exploration", tech="deterministic simulation: kdq-tree detectors vs. phase-machine model; critical value recomputed from bootstrap draws recorded at the np.random seam",
                text="Batch and streaming kdq-tree detectors are compared step by step with a model (brute-force leaf counts, KL, critical value from the recorded draws, in-a-row persistence counter) over histories whose divergence crosses the bound repeatedly.",
                note="Reads _kdqtree/_critical_dist (white box) where available; falls back to a statistical band when the draw recording has an unexpected shape."),
    "C10": dict(cat="exploration", tech="deterministic simulation: NN-DVI vs. brute-force kNN/membership model; threshold recomputed from permutations recorded at the np.random seam",
                text="Membership vectors, adjacency, NNPS distance, threshold and decisions recomputed per batch over histories with unequal sizes and duplicates.",
                note="k-NN ties accepted in any valid order."),
    "C11": dict(cat="exploration", tech="deterministic simulation (degenerate): refinement of PCA-CD against from-scratch window recomputation",
                text="Phase machine + per-component divergence + Page-Hinkley model recomputed from raw samples; scores (never projections) compared each step; online_scaling on and off; repeated-window streams.",
                note="PCA / KDE numerics of scikit-learn are trusted (model uses them too)."),
    "C12": dict(cat="exploration", tech="deterministic simulation: ensemble (coordinator) vs. real members run alone under per-member numpy seed schedule + election model",
                text="Mixed real members inside a Streaming/BatchEnsemble are compared step by step with identically configured twins updated alone on the selected columns; ensemble verdict compared with the election model; reset / set_reference fan-out.",
                note="Members wrapped by a thin reseeding proxy; election model from C13."),
    "C13": dict(cat="exploration", tech="deterministic simulation: scripted member-state histories against an executable voting model (ConfirmedElection as timer machine)",
                text="Stub members with sticky seeded regimes drive all four elections; verdict and wait counters compared after every call; measured coverage of (parameters, counters, votes) triples.",
                note="Exhaustive enumeration is not claimed (model checking); coverage fraction is measured against a BFS over the model."),
    "C14": dict(cat="fault_enumeration", tech="deterministic simulation with fault injection: one malformed call injected at every position of a valid history, compared with the twin that never saw it",
                text="For every detector, every position of a seeded valid history and every applicable malformed-call kind: the call must raise ValueError, must not count, and all later outputs must equal the twin's; container equivalence checked on the same histories.",
                note="Batch DataFrame-after-array width gap is a listed known finding (asserted by the repository's own test-suite)."),
    "C15": dict(cat="fault_enumeration", tech="deterministic simulation with fault injection: caller scribbles over every passed object after every call position; twin on private copies",
                text="After every call position the object passed in that call is overwritten in place; outputs must equal the twin's that received private copies, and every payload must be bit-identical before/after the call.",
                note="Containers: ndarray C/F/strided view, DataFrame single-block and mixed-block."),
    "C16": dict(cat="exploration", tech="deterministic simulation (metamorphic twin): per-event label re-encoding and junk on unused arguments vs. canonical run",
                text="Primary receives per event a random encoding of the same agreement pattern and junk in unused arguments; twin receives canonical 0/1 and None; traces must be equal.",
                note="LFR: only encodings of the same 0/1 cell (as the property states)."),
    "C17": dict(cat="exploration", tech="deterministic simulation: paired strict/loose runs under one numpy seed schedule, first-alarm ordering",
                text="Two instances differing only in the detection knob see the same history and the same per-call numpy seeds; first drift of the strict run must not precede the loose run's; warning-knob clauses likewise.",
                note="Exact (not statistical) because both runs see identical draws until the looser alarms."),
    "C18": dict(cat="exploration", tech="deterministic simulation with reordering fault: rows of every batch permuted, twin on original order under the same seed schedule",
                text="Batch histories with every batch (and the reference) row-permuted are compared with the unpermuted twin: divergences equal; decision sequences equal for the detectors the property names.",
                note="Scope exactly as the property states (nothing demanded of detect_batch=1)."),
    "C19": dict(cat="exploration", tech="deterministic simulation: two parties (stream source, labelling oracle) interleaved by a seeded scheduler incl. illegal moves, against a protocol reference model",
                text="Seeded interleavings of update / give_oracle_label (legal, refused, wrong columns, multi-row) are compared with a protocol + margin-density model after every move.",
                note="Classifier and margin function are deterministic stubs; KFold recorded at a seam."),
}
NA = {
    "C20": "injectors are stateless callables: the property is a pure function of (data, window, columns, parameters) with no schedule, clock, fault, history or second party to simulate; random input generation would only be dressed up as simulation (DESIGN.md 3/C20). Its one fault-shaped clause (inputs unchanged) is decided under C15.",
}


FORKED = {"C01", "C02", "C18", "C03", "C04", "C05", "C06", "C07", "C09", "C10", "C11", "C13", "C16", "C19"}
GENERIC = {"*": " Process-level faults injected in a fraction of the runs (DESIGN.md 9.10): a fleet of bystander instances of the same classes stepped between "
                "the calls of the run under test (1 run in 4)."}
for _p in FORKED:
    GENERIC[_p] = GENERIC["*"][:-1] + "; snapshot / restore of the detector (copy.deepcopy or pickle round trip at an arbitrary instant or while it reports drift, 1 run in 5)."
for _p, _extra in {"C03": " Marathon scenario (4300-5200 updates).", "C04": " ph_long / cusum_long scenarios (thousands of observations per epoch, burn_in > 1000); offset / tiny / lattice data regimes.",
                   "C05": " Marathon scenario (3000-sample epochs, one-pass specification).", "C06": " par_split: the scheduler also runs a statement-split copy of lfr.py (load / compute / store of read-modify-writes on separate lines).",
                   "C07": " Offset / tiny / lattice data regimes; DataFrame batches with duplicated labels.", "C09": " Offset / tiny / lattice data regimes; integer-typed observations.",
                   "C10": " Offset / tiny / lattice data regimes; integer-typed reference; big_sampling scenario.", "C11": " Tiny-scale regime; marathon scenario; online_scaling as numpy.bool_ / int.",
                   "C12": " One constructor parameter of the members retyped (twins plain); ensembles built with and without selectors.", "C13": " Thresholds as float / numpy scalar of equal value.",
                   "C15": " Read-only views of caller-owned buffers, injector pipelines, MD3 over copy=False frames.", "C16": " Label codecs incl. close-valued floats, number-vs-string pairs, unsigned dtypes; parameter retyping.",
                   "C17": " Offset / tiny data regimes.", "C18": " Offset / tiny data regimes; parameter retyping.", "C02": " One constructor parameter retyped (fresh twins plain).",
                   "C19": " Scenario svc (real sklearn SVC + default margin function), in-place refits, integer column labels."}.items():
    GENERIC[_p] = GENERIC.get(_p, GENERIC["*"]) + _extra


def main():
    checks = []
    na = []
    for i in range(1, 21):
        pid = "C%02d" % i
        if os.path.exists(os.path.join(HERE, "sim", "props", pid.lower() + ".py")) and pid in T:
            t = T[pid]
            checks.append({
                "property_id": pid,
                "quick_cmd": f"timeout 1500 /venv/bin/python /verif/check.py {pid} --tier quick",
                "thorough_cmd": f"timeout 7200 /venv/bin/python /verif/check.py {pid} --tier thorough",
                "evidence_file": f"/verif/evidence/{pid}.json",
                "replay_cmd_template": f"/venv/bin/python /verif/check.py {pid} --replay {{path}}",
                "engine": "menelaus-dst",
                "level_claimed": {"category": t["cat"], "text": t["text"], "design_ref": f"DESIGN.md section 3 / {pid}"},
                "level_note": t["note"] + GENERIC.get(pid, GENERIC["*"]),
                "technique": t["tech"],
            })
        else:
            na.append({"property_id": pid, "reason": NA.get(pid, "check not built yet in this tree (work in progress); no claim is made")})
    man = {
        "version": 1,
        "setup_cmd": "/venv/bin/python /verif/check.py --selfcheck",
        "hooks": {
            "guard": "MENELAUS_VERIF",
            "enable": "no source hook exists: every seam is a module-level name or user-supplied object rebound by the harness at run time (DESIGN.md 2.4); checks export MENELAUS_VERIF=1 for symmetry only",
            "baseline_off_cmd": "cd /repo && /venv/bin/python -m pytest -ra -q -p no:cacheprovider --timeout=900 --continue-on-collection-errors",
            "source_commits": [],
            "add_only": True,
        },
        "engines": [{
            "name": "menelaus-dst",
            "path": "/verif/sim",
            "serves_properties": [c["property_id"] for c in checks],
            "kind_free_text": "in-process deterministic simulator: seeded event histories with fault injection, numpy seed schedule + np.random recording seams, baton thread scheduler, reference models / twins, ddmin minimisation, replay files",
        }],
        "checks": checks,
        "not_applicable": na,
        "notes": "exit 0 held / exit 1 VIOLATION property=<id> replay=<path> / exit 2 HARNESS-ERROR. VERIF_SEED, VERIF_TIER, VERIF_JOBS, VERIF_REPO honoured. Genuine defects repaired by fix: commits are listed in known_findings.json (fixed entries suppress nothing).",
    }
    with open(os.path.join(HERE, "MANIFEST.json"), "w") as f:
        json.dump(man, f, indent=1)
    print("claimed", [c["property_id"] for c in checks], "not_applicable", [n["property_id"] for n in na])


if __name__ == "__main__":
    main()
