#!/venv/bin/python
"""Reach measurement: which lines / branches of menelaus do the simulated runs execute?

    tools/coverage_probe.py [-n 60] [--tier quick] [C03 C07 ...]

Runs the first n cases of every scenario of every (listed) check in this process under coverage.py
(branch coverage, source = the menelaus package under VERIF_REPO) and prints, per source file, the
lines and branch arcs that no simulated run reached.  A blind spot here is a place where a change can
hide from every check; the report drives new scenarios.  Not a check, not evidence: a development aid.
"""
import argparse
import importlib
import json
import os
import sys

HERE = os.path.dirname(os.path.dirname(os.path.abspath(__file__)))


def main():
    ap = argparse.ArgumentParser()
    ap.add_argument("-n", type=int, default=60)
    ap.add_argument("--tier", default="quick")
    ap.add_argument("--seed", type=int, default=0)
    ap.add_argument("--json", default="")
    ap.add_argument("props", nargs="*")
    a = ap.parse_args()
    if os.environ.get("MENELAUS_VERIF_PINNED") != "1":
        env = dict(os.environ, PYTHONHASHSEED="0", OMP_NUM_THREADS="1", OPENBLAS_NUM_THREADS="1", MKL_NUM_THREADS="1", MENELAUS_VERIF_PINNED="1")
        os.execve(sys.executable, [sys.executable] + sys.argv, env)
    repo = os.path.abspath(os.environ.get("VERIF_REPO", "/repo"))
    sys.path.insert(0, repo)
    sys.path.insert(0, HERE)
    import coverage

    cov = coverage.Coverage(branch=True, source=[os.path.join(repo, "menelaus")], data_file=None, omit=["*/datasets/*"])
    cov.start()
    import menelaus  # noqa: F401
    from sim import core

    props = a.props or ["C%02d" % i for i in range(1, 20)]
    per_prop = {}
    for p in props:
        mod = importlib.import_module(f"sim.props.{p.lower()}")
        known = [k["sig"] for k in core.load_known(p)]
        runs = 0
        bad = 0
        for name, total in mod.scenarios(a.tier):
            for i in range(min(a.n, total)):
                case = core.make_case(mod, p, name, a.seed, i, a.tier)
                out = core.run_case(mod, case, known)
                runs += 1
                if out.get("violation") or out.get("harness"):
                    bad += 1
        per_prop[p] = (runs, bad)
        print(f"{p}: {runs} runs, {bad} with violation/harness", file=sys.stderr)
    cov.stop()
    report = {}
    data = cov.get_data()
    for f in sorted(data.measured_files()):
        if "/menelaus/" not in f:
            continue
        an = cov._analyze(f)
        missing = sorted(an.missing)
        arcs = sorted(an.arcs_missing()) if hasattr(an, "arcs_missing") else []
        arcs = [x for x in arcs if x[0] not in an.missing and x[1] not in an.missing and x[0] > 0]
        rel = f.split("/menelaus/", 1)[1]
        report[rel] = {"statements": len(an.statements), "missing_lines": missing, "missing_arcs": arcs}
    for rel, r in report.items():
        if r["missing_lines"] or r["missing_arcs"]:
            print(f"{rel}: {len(r['missing_lines'])}/{r['statements']} lines unreached {r['missing_lines']}  partial branches {r['missing_arcs']}")
    if a.json:
        json.dump(report, open(a.json, "w"), indent=1)
    return 0


if __name__ == "__main__":
    sys.exit(main())
