#!/venv/bin/python
"""Specificity wave: run the checks anchored in the files a property-PRESERVING change touches; every check must stay quiet.
    tools/spec_wave.py --root /tmp/mut7 S03 [m1 m2 ...]       (changes: <root>/<name>/out/mK.diff)
    tools/spec_wave.py --filed S03-w7m1 ...                   (changes filed under /verif/specificity/<id>/patch.diff)
Never touches /repo: trymut.py applies the change to a scratch copy."""
import argparse
import glob
import json
import os
import re
import subprocess
import sys

HERE = os.path.dirname(os.path.dirname(os.path.abspath(__file__)))


def checks_for(diff):
    files = set(re.findall(r"^\+\+\+ b/(\S+)", open(diff).read(), re.M))
    out = set()
    for line in open(os.path.join(HERE, "properties.jsonl")):
        p = json.loads(line)
        if p["id"] != "C20" and files & set(p["anchors"]["files"]):
            out.add(p["id"])
    if any(f.startswith(("menelaus/change_detection", "menelaus/concept_drift", "menelaus/data_drift", "menelaus/detector")) for f in files):
        out.add("C12")      # members of ensembles
    if any("page_hinkley" in f for f in files):
        out.add("C11")
    if any(f.startswith("menelaus/injection") for f in files):
        out.add("C15")      # the injector clause of C15
    if any("md3" in f for f in files):
        out.update({"C01", "C15"})
    return sorted(out), sorted(files)


MAIN = {"adwin": ["C03"], "cusum": ["C04"], "page_hinkley": ["C04", "C11"], "ddm": ["C05"], "eddm": ["C05"], "stepd": ["C05"], "lfr": ["C06"],
        "histogram_density": ["C07", "C18"], "hdddm": ["C07"], "cdbd": ["C07"], "KDQTreePartitioner": ["C08", "C09"], "kdq_tree": ["C09"],
        "NNSpacePartitioner": ["C10", "C18"], "nndvi": ["C10"], "pca_cd": ["C11"], "ensemble": ["C12"], "election": ["C13", "C12"],
        "md3": ["C19", "C15"], "detector.py": ["C14", "C15"], "injection": ["C15"]}


def main():
    ap = argparse.ArgumentParser()
    ap.add_argument("--root", default="/tmp/mut7")
    ap.add_argument("--filed", action="store_true")
    ap.add_argument("--main-only", action="store_true", help="only the checks of the properties whose statement is about the touched code")
    ap.add_argument("--seed", default="0")
    ap.add_argument("names", nargs="+")
    a = ap.parse_args()
    if a.filed:
        diffs = [(n, os.path.join(HERE, "specificity", n, "patch.diff")) for n in a.names]
    else:
        name, ms = a.names[0], a.names[1:]
        ds = sorted(glob.glob(os.path.join(a.root, name, "out", "m*.diff")))
        diffs = [(f"{name}-{os.path.basename(d)[:-5]}", d) for d in ds if not ms or os.path.basename(d)[:-5] in ms]
    bad = 0
    for label, d in diffs:
        checks, files = checks_for(d)
        if a.main_only:
            main = set()
            for f_ in files:
                for key, props in MAIN.items():
                    if key in f_:
                        main.update(props)
            checks = sorted(main & set(checks) | (main if not set(checks) else set())) or checks
        cp = subprocess.run([sys.executable, os.path.join(HERE, "tools", "trymut.py"), "--diff", d, "--seed", a.seed] + checks, capture_output=True, text=True, cwd=HERE)
        lines = [l for l in cp.stdout.splitlines() if re.match(r"^C\d\d: ", l)]
        alarms = [l for l in lines if "violation=yes" in l or "exit=2" in l or "exit=1" in l]
        bad += len(alarms)
        print(f"{label}: files={files} checks={checks} -> {'QUIET' if not alarms and len(lines) == len(checks) else 'ALARM / INCOMPLETE'}")
        for l in lines:
            print("    " + l)
        if alarms or len(lines) != len(checks):
            print(cp.stdout[-3000:])
            print(cp.stderr[-1500:])
        sys.stdout.flush()
    return 1 if bad else 0


if __name__ == "__main__":
    sys.exit(main())
