#!/venv/bin/python
"""Soak: run checks over many VERIF_SEED values on the (unchanged) tree and report every non-zero exit.
    tools/soak.py --seeds 1-20 [--tier quick] [--jobs 16] [C01 ...]
Evidence / replays of soak runs go to a scratch directory (the registered evidence is not touched)."""
import argparse
import os
import subprocess
import sys
import time

HERE = os.path.dirname(os.path.dirname(os.path.abspath(__file__)))
ALL = ["C%02d" % i for i in range(1, 20)]


def main():
    ap = argparse.ArgumentParser()
    ap.add_argument("--seeds", default="1-10")
    ap.add_argument("--tier", default="quick")
    ap.add_argument("--jobs", default="16")
    ap.add_argument("--out", default="/tmp/verif_soak")
    ap.add_argument("props", nargs="*")
    a = ap.parse_args()
    lo, hi = (a.seeds.split("-") + [a.seeds])[:2]
    os.makedirs(a.out, exist_ok=True)
    bad = 0
    runs = 0
    t0 = time.time()
    for seed in range(int(lo), int(hi) + 1):
        for prop in a.props or ALL:
            env = dict(os.environ, VERIF_SEED=str(seed), VERIF_EVIDENCE_DIR=os.path.join(a.out, "evidence"), VERIF_REPLAY_DIR=os.path.join(a.out, "replays"))
            env.pop("MENELAUS_VERIF_PINNED", None)
            cp = subprocess.run([sys.executable, os.path.join(HERE, "check.py"), prop, "--tier", a.tier, "--jobs", a.jobs], capture_output=True, text=True, env=env, cwd=HERE)
            runs += 1
            line = [l for l in cp.stdout.splitlines() if l.startswith(prop + " tier=")]
            if cp.returncode != 0:
                bad += 1
                print(f"SOAK-ALARM seed={seed} {prop} exit={cp.returncode}\n{cp.stdout[-1500:]}\n{cp.stderr[-500:]}")
            else:
                print(f"ok seed={seed} {line[0] if line else prop}")
            sys.stdout.flush()
    print(f"soak finished: {runs} check runs, {bad} alarms, {time.time() - t0:.0f}s")
    return 1 if bad else 0


if __name__ == "__main__":
    sys.exit(main())
