#!/venv/bin/python
"""Run checks against a mutated scratch copy of /repo (never touches /repo itself).

    tools/trymut.py --diff seeded/x/patch.diff C05 C01          # apply a diff (git apply)
    tools/trymut.py --reverse --diff fixes/d1.diff C04         # re-introduce a repaired defect
    tools/trymut.py --sub 'menelaus/concept_drift/ddm.py' 'OLD' 'NEW' C05

The scratch copy lives under /tmp/verif_scratch_<pid> and is removed afterwards.
Prints one line per check: property, exit code, whether a VIOLATION line was printed, wall time.
Exit 0 if every listed check reported a violation (mutant caught), 1 otherwise.
"""
import argparse
import os
import shutil
import subprocess
import sys
import time

HERE = os.path.dirname(os.path.dirname(os.path.abspath(__file__)))


def main():
    ap = argparse.ArgumentParser()
    ap.add_argument("--diff")
    ap.add_argument("--reverse", action="store_true")
    ap.add_argument("--sub", nargs=3, action="append", metavar=("FILE", "OLD", "NEW"))
    ap.add_argument("--sub-all", nargs=3, action="append", metavar=("FILE", "OLD", "NEW"))
    ap.add_argument("--tier", default="quick")
    ap.add_argument("--seed", default="0")
    ap.add_argument("--keep-replays", action="store_true")
    ap.add_argument("-v", action="store_true")
    ap.add_argument("props", nargs="+")
    a = ap.parse_args()
    scratch = f"/tmp/verif_scratch_{os.getpid()}"
    shutil.rmtree(scratch, ignore_errors=True)
    os.makedirs(scratch)
    try:
        shutil.copytree("/repo/menelaus", os.path.join(scratch, "menelaus"))
        if a.diff:
            cmd = ["git", "apply", "--unsafe-paths", "--directory", scratch]
            if a.reverse:
                cmd.append("-R")
            cmd.append(os.path.abspath(a.diff))
            # git apply outside a repo needs cwd = scratch
            cmd = ["git", "apply"] + (["-R"] if a.reverse else []) + [os.path.abspath(a.diff)]
            cp = subprocess.run(cmd, cwd=scratch, capture_output=True, text=True)
            if cp.returncode != 0:
                cp = subprocess.run(["patch", "-p1"] + (["-R"] if a.reverse else []) + ["-i", os.path.abspath(a.diff)],
                                    cwd=scratch, capture_output=True, text=True)
                if cp.returncode != 0:
                    print("could not apply diff:", cp.stdout[-500:], cp.stderr[-500:])
                    return 2
        for f, old, new in a.sub or []:
            p = os.path.join(scratch, f)
            s = open(p).read()
            if s.count(old) != 1:
                print(f"--sub: {old!r} occurs {s.count(old)} times in {f}")
                return 2
            open(p, "w").write(s.replace(old, new))
        for f, old, new in a.sub_all or []:
            p = os.path.join(scratch, f)
            s = open(p).read()
            if s.count(old) < 1:
                print(f"--sub-all: {old!r} not found in {f}")
                return 2
            open(p, "w").write(s.replace(old, new))
        caught = 0
        for prop in a.props:
            env = dict(os.environ, VERIF_REPO=scratch, VERIF_SEED=a.seed,
                       VERIF_EVIDENCE_DIR=os.path.join(scratch, "evidence"), VERIF_REPLAY_DIR=os.path.join(scratch, "replays"))
            env.pop("MENELAUS_VERIF_PINNED", None)
            t0 = time.time()
            cp = subprocess.run([sys.executable, os.path.join(HERE, "check.py"), prop, "--tier", a.tier],
                                capture_output=True, text=True, env=env, cwd=HERE)
            vio = [l for l in cp.stdout.splitlines() if l.startswith("VIOLATION")]
            print(f"{prop}: exit={cp.returncode} violation={'yes' if vio else 'no'} wall={time.time() - t0:.1f}s")
            if a.v or cp.returncode not in (0, 1):
                print(cp.stdout[-3000:])
                print(cp.stderr[-1500:])
            else:
                for l in cp.stdout.splitlines():
                    if l.startswith(("violation", "   ", "VIOLATION", "KNOWN", "HARNESS")):
                        print("   ", l[:400])
            caught += bool(vio and cp.returncode == 1)
            if vio and a.keep_replays:
                for l in vio:
                    path = l.split("replay=")[-1].strip()
                    if os.path.exists(path):
                        shutil.copy(path, "/tmp/")
                        print("    replay kept at /tmp/" + os.path.basename(path))
        # evidence files were rewritten by runs against the scratch tree: callers re-run the real check
        return 0 if caught == len(a.props) else 1
    finally:
        shutil.rmtree(scratch, ignore_errors=True)


if __name__ == "__main__":
    sys.exit(main())
