#!/venv/bin/python
"""Determinism self-test: every run must be a pure function of (VERIF_SEED, property, scenario, index).

For each property the first N runs of every scenario are executed in FOUR fresh interpreters:
  A: PYTHONHASHSEED=0,     16 workers      B: PYTHONHASHSEED=0,     1 worker... (2 workers, to keep it short)
  C: PYTHONHASHSEED=12345, 16 workers      D: PYTHONHASHSEED=777,    5 workers, VERIF_SEED differing -> must DIFFER
and the per-run digests (SHA-1 over the full observation trace, incl. recorded thread-switch logs) are
compared pairwise.  A/B/C must be identical run by run; D (another VERIF_SEED) must differ somewhere
(otherwise the seed would not drive the runs).  Exit 0 = deterministic.

    tools/selftest_determinism.py [-n 40] [C01 C02 ...]
"""
import argparse
import json
import os
import subprocess
import sys

HERE = os.path.dirname(os.path.dirname(os.path.abspath(__file__)))
ALL = ["C%02d" % i for i in range(1, 20)]


def digests(prop, n, hashseed, jobs, seed):
    env = dict(os.environ, VERIF_HASHSEED_OVERRIDE=str(hashseed))
    env.pop("MENELAUS_VERIF_PINNED", None)
    cp = subprocess.run([sys.executable, os.path.join(HERE, "check.py"), prop, "--digests", str(n), "--jobs", str(jobs), "--seed", str(seed)],
                        capture_output=True, text=True, env=env, cwd=HERE)
    for line in cp.stdout.splitlines():
        if line.startswith("DIGESTS "):
            return json.loads(line[8:])
    raise SystemExit(f"{prop}: no digests (exit {cp.returncode}): {cp.stdout[-300:]} {cp.stderr[-300:]}")


def main():
    ap = argparse.ArgumentParser()
    ap.add_argument("-n", type=int, default=40)
    ap.add_argument("props", nargs="*")
    a = ap.parse_args()
    bad = 0
    total = 0
    for prop in a.props or ALL:
        A = digests(prop, a.n, 0, 16, 0)
        B = digests(prop, a.n, 0, 2, 0)
        C = digests(prop, a.n, 12345, 16, 0)
        D = digests(prop, min(a.n, 10), 777, 5, 1)
        nruns = sum(len(v) for v in A.values())
        total += nruns
        mism = [(s, i) for s in A for i in range(len(A[s])) if not (A[s][i] == B[s][i] == C[s][i])]
        harness = [(s, i) for s in A for i, d in enumerate(A[s]) if str(d).startswith("HARNESS")]
        seed_matters = any(A[s][:len(D[s])] != D[s] for s in D)
        ok = not mism and not harness and seed_matters
        bad += not ok
        print(f"{prop}: {nruns} runs x 3 interpreters (hash seeds 0/0/12345, workers 16/2/16): "
              f"{'identical' if not mism else 'MISMATCH ' + str(mism[:5])}; other VERIF_SEED differs: {seed_matters}"
              + (f"; HARNESS {harness[:3]}" if harness else ""))
    print(f"determinism self-test: {total} runs compared, {'OK' if not bad else str(bad) + ' properties FAILED'}")
    return 1 if bad else 0


if __name__ == "__main__":
    sys.exit(main())
