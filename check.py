#!/venv/bin/python
"""Single entry point of the menelaus deterministic-simulation checks.

    check.py C05 [--tier quick|thorough] [--seed N] [--jobs N]
    check.py C05 --replay replays/C05-0-xxxx.json
    check.py --selfcheck

exit 0: property held on everything explored (KNOWN-FINDING lines allowed)
exit 1: a line `VIOLATION property=<id> replay=<path>` was printed
exit 2: HARNESS-ERROR (never a verdict about menelaus)
"""
import argparse
import importlib
import os
import sys

HERE = os.path.dirname(os.path.abspath(__file__))
PINNED = {"PYTHONHASHSEED": "0", "OMP_NUM_THREADS": "1", "OPENBLAS_NUM_THREADS": "1", "MKL_NUM_THREADS": "1"}


def _reexec_pinned():
    if os.environ.get("MENELAUS_VERIF_PINNED") == "1":
        return
    env = dict(os.environ)
    env.update(PINNED)
    if os.environ.get("VERIF_HASHSEED_OVERRIDE"):   # determinism self-test: prove independence of the hash seed
        env["PYTHONHASHSEED"] = os.environ["VERIF_HASHSEED_OVERRIDE"]
    env["MENELAUS_VERIF_PINNED"] = "1"
    env.setdefault("MENELAUS_VERIF", "1")  # hook guard (no hook in /repo needs it today)
    os.execve(sys.executable, [sys.executable] + sys.argv, env)


def _import_repo():
    repo = os.path.abspath(os.environ.get("VERIF_REPO", "/repo"))
    sys.path.insert(0, repo)
    sys.path.insert(0, HERE)
    import menelaus

    f = os.path.abspath(menelaus.__file__)
    if not f.startswith(repo + os.sep):
        print(f"HARNESS-ERROR menelaus imported from {f}, not from {repo}")
        sys.exit(2)
    return repo


PROPS = ["C%02d" % i for i in range(1, 21)]


def main():
    _reexec_pinned()
    ap = argparse.ArgumentParser()
    ap.add_argument("prop", nargs="?")
    ap.add_argument("--tier", default=os.environ.get("VERIF_TIER", "quick"), choices=["quick", "thorough"])
    ap.add_argument("--seed", type=int, default=int(os.environ.get("VERIF_SEED", "0")))
    ap.add_argument("--jobs", type=int, default=int(os.environ.get("VERIF_JOBS", os.cpu_count() or 4)))
    ap.add_argument("--replay")
    ap.add_argument("--selfcheck", action="store_true")
    ap.add_argument("--digests", type=int, help="print the trace digests of the first N runs of every scenario as JSON (self-test)")
    a = ap.parse_args()
    _import_repo()
    from sim import core

    if a.selfcheck:
        bad = 0
        for p in PROPS:
            try:
                m = importlib.import_module(f"sim.props.{p.lower()}")
                for attr in ("PROP", "LEVEL", "RULE", "scenarios", "gen", "run"):
                    getattr(m, attr)
            except ModuleNotFoundError as e:
                if f"sim.props.{p.lower()}" in str(e):
                    continue  # property not claimed
                print(f"selfcheck: {p}: {e}")
                bad += 1
            except Exception as e:  # noqa: BLE001
                print(f"selfcheck: {p}: {type(e).__name__}: {e}")
                bad += 1
        print("selfcheck", "FAILED" if bad else "ok", core.versions())
        return 2 if bad else 0
    if not a.prop:
        ap.error("property id required")
    mod = importlib.import_module(f"sim.props.{a.prop.lower()}")
    if a.replay:
        return core.replay(mod, a.replay)
    if a.digests:
        return core.print_digests(mod, a.tier, a.seed, max(1, a.jobs), a.digests)
    return core.run_check(mod, a.tier, a.seed, max(1, a.jobs))


if __name__ == "__main__":
    sys.exit(main())
